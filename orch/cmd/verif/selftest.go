package main

import (
	"encoding/json"
	"fmt"
	"os"
	"os/exec"
	"path/filepath"
	"sort"
	"strconv"
	"strings"
	"sync"
	"time"
)

func specialCheck(p *propDef, tier string, baseSeed uint64, simBin string, start time.Time) int {
	fmt.Println("HARNESS-TROUBLE special engine not built")
	return 2
}

// selftest determinism: the same run indices executed in several fresh processes
// at different GOMAXPROCS must produce identical event logs (hash over every
// event including simulated times, sequence numbers and park announcements).
// sensitivity: every kept seeded change (seeded/<id>/patch.diff) is applied to a
// scratch worktree of /repo and the quick check of the property it breaks must
// report a violation there.
func sensitivity(args []string) int {
	dirs, _ := filepath.Glob(filepath.Join(root, "seeded", "*", "meta.json"))
	sort.Strings(dirs)
	self, _ := os.Executable()
	missed := 0
	for _, mf := range dirs {
		var meta struct {
			ID     string `json:"id"`
			Prop   string `json:"breaks_property"`
			Missed bool   `json:"missed"`
		}
		b, _ := os.ReadFile(mf)
		json.Unmarshal(b, &meta)
		if len(args) > 0 && !strings.Contains(meta.ID, args[0]) {
			continue
		}
		if meta.Missed {
			fmt.Printf("SENSITIVITY %-45s %s  KNOWN-MISS (recorded as a limit, see DESIGN section 13 and 17)\n", meta.ID, meta.Prop)
			continue
		}
		wt, err := os.MkdirTemp("", "verif-sens-")
		if err != nil {
			die(2, "%v", err)
		}
		os.Remove(wt)
		run := func(dir string, name string, a ...string) (string, error) {
			c := exec.Command(name, a...)
			c.Dir = dir
			out, err := c.CombinedOutput()
			return string(out), err
		}
		if out, err := run(repo, "git", "worktree", "add", "-q", "--detach", wt, "HEAD"); err != nil {
			die(2, "worktree: %s", out)
		}
		cleanup := func() { run(repo, "git", "worktree", "remove", "--force", wt) }
		if out, err := run(wt, "git", "apply", "-3", filepath.Join(filepath.Dir(mf), "patch.diff")); err != nil {
			fmt.Printf("SENSITIVITY %-45s %s  patch no longer applies: %s\n", meta.ID, meta.Prop, strings.TrimSpace(out))
			cleanup()
			missed++
			continue
		}
		rd, _ := os.MkdirTemp("", "verif-sens-replays-")
		c := exec.Command(self, "check", meta.Prop, "--tier", "quick")
		c.Env = append(os.Environ(), "VERIF_REPO="+wt, "VERIF_NO_EVIDENCE=1", "VERIF_BUILD_TAG=-sens", "VERIF_BRIEF=1", "VERIF_REPLAY_DIR="+rd)
		if os.Getenv("VERIF_WALL_MS") == "" {
			c.Env = append(c.Env, "VERIF_WALL_MS=20000")
		}
		out, _ := c.CombinedOutput()
		os.RemoveAll(rd)
		cleanup()
		n := strings.Count(string(out), "VIOLATION property="+meta.Prop)
		verdict := "CAUGHT"
		if n == 0 {
			verdict = "MISSED"
			missed++
		}
		first := ""
		for _, l := range strings.Split(string(out), "\n") {
			if strings.HasPrefix(l, "  class:") {
				first = strings.TrimSpace(l)
				break
			}
		}
		fmt.Printf("SENSITIVITY %-45s %s  %s (%d classes) %s\n", meta.ID, meta.Prop, verdict, n, first)
	}
	if missed > 0 {
		return 1
	}
	return 0
}

func selftest(args []string) int {
	if len(args) > 0 && args[0] == "sensitivity" {
		return sensitivity(args[1:])
	}
	if len(args) == 0 || args[0] != "determinism" {
		die(2, "usage: verif selftest determinism [runs] [repeats] [engine/profile ...] | selftest sensitivity [id-substring]")
	}
	n, repeats := 60, 6
	if len(args) > 1 {
		n, _ = strconv.Atoi(args[1])
	}
	if len(args) > 2 {
		repeats, _ = strconv.Atoi(args[2])
	}
	simBin, _ := build()
	dir := filepath.Join(root, "build", fmt.Sprintf("selftest-%d", os.Getpid()))
	os.MkdirAll(dir, 0o755)
	defer os.RemoveAll(dir)
	var only []int
	for i := 0; i < n; i++ {
		only = append(only, i)
	}
	gmp := []string{"1", "4", "16", "2", "8", "16"}
	bad := 0
	type target struct{ engine, prop string }
	targets := []target{{"exec", "C04"}, {"exec", "C07"}, {"exec", "C12"}, {"crash", "C10"}, {"crash", "C11"}, {"store", "C13"}, {"store", "C15"}}
	if len(args) > 3 {
		// selftest determinism <runs> <repeats> <engine>/<profile>
		targets = nil
		for _, a := range args[3:] {
			if e, p, ok := strings.Cut(a, "/"); ok {
				targets = append(targets, target{e, p})
			}
		}
	}
	for _, tg := range targets {
		hashes := make([]map[string]int, repeats)
		var wg sync.WaitGroup
		for r := 0; r < repeats; r++ {
			wg.Add(1)
			go func(r int) {
				defer wg.Done()
				job := map[string]any{"engine": tg.engine, "property": tg.prop, "baseSeed": 4242, "only": only, "minimize": 0, "mode": "hashes"}
				res, crashed, tail, _ := runWorker(simBin, job, dir, r, gmp[r%len(gmp)])
				if crashed {
					fmt.Printf("selftest worker died:\n%s\n", tail)
					return
				}
				hashes[r] = res.Extra
			}(r)
		}
		wg.Wait()
		var keys []string
		for k := range hashes[0] {
			keys = append(keys, k)
		}
		sort.Strings(keys)
		diverged := 0
		for _, k := range keys {
			for r := 1; r < repeats; r++ {
				if hashes[r] == nil || hashes[r][k] != hashes[0][k] {
					diverged++
					fmt.Printf("DIVERGENCE engine=%s profile=%s %s: process 0 (GOMAXPROCS %s) != process %d (GOMAXPROCS %s)\n", tg.engine, tg.prop, k, gmp[0], r, gmp[r%len(gmp)])
					break
				}
			}
		}
		fmt.Printf("determinism %s/%s: %d runs x %d processes (GOMAXPROCS %v): %d diverged\n", tg.engine, tg.prop, len(keys), repeats, gmp[:repeats], diverged)
		if len(keys) == 0 {
			bad++
		}
		bad += diverged
	}
	if bad > 0 {
		return 1
	}
	return 0
}
