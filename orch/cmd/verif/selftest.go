package main

import (
	"fmt"
	"os"
	"path/filepath"
	"sort"
	"strconv"
	"strings"
	"sync"
	"time"
)

func specialCheck(p *propDef, tier string, baseSeed uint64, simBin string, start time.Time) int {
	fmt.Println("HARNESS-TROUBLE special engine not built")
	return 2
}

// selftest determinism: the same run indices executed in several fresh processes
// at different GOMAXPROCS must produce identical event logs (hash over every
// event including simulated times, sequence numbers and park announcements).
func selftest(args []string) int {
	if len(args) == 0 || args[0] != "determinism" {
		die(2, "usage: verif selftest determinism [runs] [repeats]")
	}
	n, repeats := 60, 6
	if len(args) > 1 {
		n, _ = strconv.Atoi(args[1])
	}
	if len(args) > 2 {
		repeats, _ = strconv.Atoi(args[2])
	}
	simBin, _ := build()
	dir := filepath.Join(root, "build", fmt.Sprintf("selftest-%d", os.Getpid()))
	os.MkdirAll(dir, 0o755)
	defer os.RemoveAll(dir)
	var only []int
	for i := 0; i < n; i++ {
		only = append(only, i)
	}
	gmp := []string{"1", "4", "16", "2", "8", "16"}
	bad := 0
	type target struct{ engine, prop string }
	targets := []target{{"exec", "C04"}, {"exec", "C07"}, {"exec", "C12"}, {"crash", "C10"}, {"crash", "C11"}, {"store", "C13"}, {"store", "C15"}}
	if len(args) > 3 {
		// selftest determinism <runs> <repeats> <engine>/<profile>
		targets = nil
		for _, a := range args[3:] {
			if e, p, ok := strings.Cut(a, "/"); ok {
				targets = append(targets, target{e, p})
			}
		}
	}
	for _, tg := range targets {
		hashes := make([]map[string]int, repeats)
		var wg sync.WaitGroup
		for r := 0; r < repeats; r++ {
			wg.Add(1)
			go func(r int) {
				defer wg.Done()
				job := map[string]any{"engine": tg.engine, "property": tg.prop, "baseSeed": 4242, "only": only, "minimize": 0, "mode": "hashes"}
				res, crashed, tail, _ := runWorker(simBin, job, dir, r, gmp[r%len(gmp)])
				if crashed {
					fmt.Printf("selftest worker died:\n%s\n", tail)
					return
				}
				hashes[r] = res.Extra
			}(r)
		}
		wg.Wait()
		var keys []string
		for k := range hashes[0] {
			keys = append(keys, k)
		}
		sort.Strings(keys)
		diverged := 0
		for _, k := range keys {
			for r := 1; r < repeats; r++ {
				if hashes[r] == nil || hashes[r][k] != hashes[0][k] {
					diverged++
					fmt.Printf("DIVERGENCE engine=%s profile=%s %s: process 0 (GOMAXPROCS %s) != process %d (GOMAXPROCS %s)\n", tg.engine, tg.prop, k, gmp[0], r, gmp[r%len(gmp)])
					break
				}
			}
		}
		fmt.Printf("determinism %s/%s: %d runs x %d processes (GOMAXPROCS %v): %d diverged\n", tg.engine, tg.prop, len(keys), repeats, gmp[:repeats], diverged)
		if len(keys) == 0 {
			bad++
		}
		bad += diverged
	}
	if bad > 0 {
		return 1
	}
	return 0
}
