// Command verif is the orchestrator of the deterministic-simulation checks: it
// regenerates the detsel overlay from /repo's current sources, rebuilds the
// simulator test binary, fans run indices out over worker processes, merges
// their results, confirms every violation by replaying its minimised replay
// file in a fresh process, applies the known-findings file and writes the
// evidence file. It has no dependency on /repo itself.
//
// Exit codes: 0 property held on everything explored (possibly after
// KNOWN-FINDING lines); 1 violation (VIOLATION line printed); 2 trouble of the
// machinery itself (build failure, violation that does not replay, ...).
package main

import (
	"bufio"
	"bytes"
	stdctx "context"
	"encoding/json"
	"fmt"
	"os"
	"os/exec"
	"path/filepath"
	"sort"
	"strconv"
	"strings"
	"sync"
	"time"

	"veriforch/detsel"
)

var root = "/verif"
var repo = "/repo"

type propDef struct {
	ID       string
	Engine   string
	Level    string
	QuickMs  int64 // per-worker wall budget
	ThorMs   int64
	QuickMax int // max runs per worker (0 = until the budget)
	ThorMax  int
	Rule     string
	Mode     string
}

var props = map[string]*propDef{}

func init() {
	execRule := func(nt string) string {
		return "runs = generated worlds (1-3 plans of random shape with seeded plugin outcome scripts, client scripts, scheduling policy and delay faults), each executed once by the real engine under the seeded scheduler; a run is non-trivial if " + nt + "; distinct = distinct trace signatures (hash of the ordered list of (event kind, logical object, outcome/status, attempt count) with times, ids and sequence numbers removed) among the non-trivial runs"
	}
	for _, p := range []*propDef{
		{ID: "C01", Engine: "exec", Level: "exploration", Rule: execRule("some ordering constraint was exercised (a sequence with >= 2 invoked actions, >= 2 blocks with invocations, or a check group next to sequences)")},
		{ID: "C02", Engine: "exec", Level: "exploration", Rule: execRule("a block had invocations in >= 2 of its sequences")},
		{ID: "C03", Engine: "exec", Level: "exploration", Rule: execRule("a sequence ended Failed in a block with >= 2 sequences")},
		{ID: "C04", Engine: "exec", Level: "exploration", Rule: execRule("a Wait on a started plan returned a plan that Failed or that had continuous checks")},
		{ID: "C05", Engine: "exec", Level: "exploration", Rule: execRule("some plugin invocation failed (retry, permanent error, wrong type or timeout)")},
		{ID: "C06", Engine: "exec", Level: "exploration", Rule: execRule("a bypass group ran, or a pre-check or the initial run of a continuous check failed")},
		{ID: "C07", Engine: "exec", Level: "exploration", Rule: execRule("a continuous check ran at least twice, or a scope with deferred checks failed")},
		{ID: "C08", Engine: "exec", Level: "exploration", Mode: "with-failstop", Rule: execRule("a retry happened or a Status poller observed the plan more than once") + "; second pass (fail-stop, C08.r5): generated worlds re-run in a child process in which the n-th durable write (sampled n) returns an error: the process must exit at that write (evaluations include these child runs, each non-trivial and distinct by (world, n, failed operation))"},
		{ID: "C12", Engine: "exec", Level: "exploration", Rule: execRule("a plan saw >= 2 Start calls, an unknown id was used, or a start around maxSubmit was tried")},
	} {
		p.QuickMs, p.ThorMs = 40_000, 600_000
		props[p.ID] = p
	}
	for _, p := range []*propDef{
		{ID: "C13", Engine: "store", Level: "exploration", Rule: "runs = generated store histories (0-6 plans with varied field values; 12-40 operations Create / Update* / Read / Exists / Search / List / Delete / Reopen by one client compared operation by operation with a reference model, every fourth index 2-3 concurrent clients whose history is checked for linearizability with porcupine) against the real SQLite vault (in-memory and file-backed) and the CosmosDB vault over the package's fake client, under the seeded scheduler; non-trivial = at least three vault operations executed; distinct = distinct operation/result traces"},
		{ID: "C15", Engine: "store", Level: "exploration", Mode: "with-crash", Rule: "two passes; second pass (the recovery clause): crash-engine runs (a process death at an enumerated or sampled durable write of a real execution, restart on the same store) in which every plan durably Running at the crash must be found again by the restarted process (resumed or closed, never ignored). First pass: runs = generated store histories biased towards Exists / Search / List with every filter combination, limits and consumers that drain or cancel, compared with a reference filter over the model store; non-trivial = a filter matched a proper non-empty subset of the stored plans or a consumer cancelled a stream; distinct = distinct operation/result traces"},
		{ID: "C14", Engine: "store", Level: "fault_enumeration", Mode: "with-kill", Rule: "two passes. (1) store histories biased towards Create (unserialisable request at a seeded position, duplicate ids, cosmos item errors) and Delete, compared with the model and with direct row counts; (2) createkill: a child process performs Create or Delete on a real file-backed SQLite store holding 0-2 other plans and is SIGKILLed, or gets ENOSPC/EIO, on entry to the n-th pwrite64 / fsync issued during the operation (strace syscall injection; quick: sampled n, thorough: every n), then a fresh process opens the store and checks all-or-nothing, the other plans and acknowledged-implies-durable; evaluations = store histories + injected child runs; non-trivial = a Create with a fault / a duplicate / a Delete was executed, or an injected child run; distinct = distinct traces / distinct (operation, fault kind, call, n, outcome)"},
	} {
		p.QuickMs, p.ThorMs = 30_000, 400_000
		props[p.ID] = p
	}
	crashRule := func(nt string) string {
		return "one batch index = one generated execution: it is first run uninterrupted to learn W, its number of durable writes, then re-run with a process death immediately before write w (even indices: every w in 1..W, FIFO schedule, small plans; odd indices: sampled w, random schedule policy and plan size), a sample of those with a second death during recovery (thorough: every write of the recovery run for the sampled first crashes); evaluations counts every simulated run; a run is non-trivial if " + nt + "; distinct = distinct trace signatures among the non-trivial runs; exhaustive is false because only the crash-point dimension of the enumerated executions is complete (see crash_points_enumerated / executions_fully_enumerated)"
	}
	for _, p := range []*propDef{
		{ID: "C09", Engine: "crash", Level: "fault_enumeration", Rule: crashRule("the crash left a plan durably Running")},
		{ID: "C10", Engine: "crash", Level: "fault_enumeration", Mode: "with-realkill", Rule: crashRule("the crash left a plan durably Running") + "; cross-validation pass (realkill, not part of the verdict): constant-script plans run by a real child process on a real file-backed SQLite store with real millisecond sleeps, SIGKILLed by itself right before a sampled durable write, then recovered by a fresh process on the same directory; the recovered plan is compared with the consistency oracle and the reference model and disagreements are reported as FIDELITY-WARNING lines and in coverage.realkill_fidelity_notes (its schedule is not the simulator's, so it cannot be replayed and never yields a VIOLATION)"},
		{ID: "C11", Engine: "crash", Level: "exploration", Rule: "one batch index = one generated store history: 2-5 small plans (never started, quick, failing, long-running) submitted and started at staggered instants by the real engine; it is run uninterrupted once, then re-run with a process death at a sampled durable write and a restart after a delay chosen around the configured maximum age (exactly at, 1 ns before / after the boundary, half, double, fixed delays), with MaxLastUpdate in {1 s, 10 s, default} and recovery on/off; a run is non-trivial if the store at the restart holds plans in >= 2 different statuses or a Running plan; distinct = distinct trace signatures among non-trivial runs"},
	} {
		p.QuickMs, p.ThorMs = 40_000, 600_000
		props[p.ID] = p
	}
}

func goEnv() []string {
	env := os.Environ()
	env = append(env, "GOFLAGS=-mod=mod", "GOPROXY=off", "GOSUMDB=off", "GOTOOLCHAIN=local")
	return env
}

func die(code int, format string, args ...any) {
	fmt.Fprintf(os.Stderr, format+"\n", args...)
	os.Exit(code)
}

// build regenerates the overlay and the simulator binary from /repo's working tree.
func build() (simBin string, rep *detsel.Report) {
	tag := os.Getenv("VERIF_BUILD_TAG") // separate build outputs for runs that must not disturb the registered checks
	ovDir := filepath.Join(root, "build", "overlay"+tag)
	ov, rep, err := detsel.Generate(repo, ovDir)
	if err != nil {
		die(2, "BUILD-TROUBLE detsel: %v", err)
	}
	src, err := os.ReadFile(filepath.Join(repo, "go.sum"))
	if err == nil {
		os.WriteFile(filepath.Join(root, "sim", "go.sum"), src, 0o644)
	}
	simBin = filepath.Join(root, "bin", "sim"+tag+".test")
	args := []string{"test", "-c", "-vet=off", "-tags", "verif", "-overlay", ov, "-o", simBin}
	if repo != "/repo" {
		// a repository elsewhere (VERIF_REPO): same module file with the replace directive redirected
		mod, err := os.ReadFile(filepath.Join(root, "sim", "go.mod"))
		if err != nil {
			die(2, "BUILD-TROUBLE %v", err)
		}
		alt := filepath.Join(root, "build", "go.alt"+tag+".mod")
		os.WriteFile(alt, bytes.ReplaceAll(mod, []byte("=> /repo"), []byte("=> "+repo)), 0o644)
		if sum, err := os.ReadFile(filepath.Join(repo, "go.sum")); err == nil {
			os.WriteFile(filepath.Join(root, "build", "go.alt"+tag+".sum"), sum, 0o644)
		}
		args = append(args, "-modfile="+alt)
	}
	args = append(args, ".")
	cmd := exec.Command("go1.26.8", args...)
	cmd.Dir = filepath.Join(root, "sim")
	cmd.Env = goEnv()
	out, err := cmd.CombinedOutput()
	if err != nil {
		die(2, "BUILD-TROUBLE go test -c failed (the tree under /repo does not compile with the harness):\n%s", out)
	}
	return simBin, rep
}

type found struct {
	Index  int    `json:"index"`
	Seed   uint64 `json:"seed"`
	V      struct {
		Prop  string `json:"prop"`
		Rule  string `json:"rule"`
		Class string `json:"class"`
		Msg   string `json:"msg"`
	} `json:"v"`
	Replay string `json:"replay"`
	Probes int    `json:"probes"`
	Count  int    `json:"count"`
}

type workerResult struct {
	Runs       int            `json:"runs"`
	Nontrivial int            `json:"nontrivial"`
	Sigs       []string       `json:"sigs"`
	SimNs      int64          `json:"simNs"`
	Steps      int64          `json:"steps"`
	Events     int64          `json:"events"`
	Faults     map[string]int `json:"faults"`
	Probes     map[string]int `json:"probes"`
	Found      []*found       `json:"found"`
	Harness    []string       `json:"harness"`
	Overruns   int            `json:"overruns"`
	Hangs      int            `json:"hangs"`
	Samples    []any          `json:"samples"`
	Fidelity   []string       `json:"fidelity"`
	FirstSeed  uint64         `json:"firstSeed"`
	LastSeed   uint64         `json:"lastSeed"`
	Extra      map[string]int `json:"extra"`
	WallMs     int64          `json:"wallMs"`
	Detsel     int            `json:"detsel"`
}

type knownFinding struct {
	Status   string `json:"status"` // known | fixed
	Property string `json:"property"`
	Class    string `json:"class"`
	Witness  string `json:"witness,omitempty"`
	Commit   string `json:"commit,omitempty"`
	Note     string `json:"note,omitempty"`
}

func loadKnown() []knownFinding {
	var out []knownFinding
	f, err := os.Open(filepath.Join(root, "known_findings.jsonl"))
	if err != nil {
		return nil
	}
	defer f.Close()
	sc := bufio.NewScanner(f)
	sc.Buffer(make([]byte, 1<<20), 1<<24)
	for sc.Scan() {
		line := strings.TrimSpace(sc.Text())
		if line == "" || strings.HasPrefix(line, "#") {
			continue
		}
		var k knownFinding
		if json.Unmarshal([]byte(line), &k) == nil {
			out = append(out, k)
		}
	}
	return out
}

func numWorkers() int {
	if s := os.Getenv("VERIF_WORKERS"); s != "" {
		if n, err := strconv.Atoi(s); err == nil && n > 0 {
			return n
		}
	}
	return 16
}

func runWorker(simBin string, job map[string]any, dir string, k int, gomaxprocs string) (res *workerResult, crashed bool, stderrTail string, lastIdx int) {
	jobFile := filepath.Join(dir, fmt.Sprintf("job%d.json", k))
	out := filepath.Join(dir, fmt.Sprintf("out%d.json", k))
	journal := filepath.Join(dir, fmt.Sprintf("journal%d.txt", k))
	job["out"], job["journal"] = out, journal
	jb, _ := json.Marshal(job)
	os.WriteFile(jobFile, jb, 0o644)
	os.Remove(out)
	// Real-time guard: a world that blocks on something the simulated clock cannot see (a mutex, a
	// busy loop) would hang the worker for ever. The limit is generous: budget + minimisation.
	limit := 10 * time.Minute
	if w, ok := job["wallMs"].(int64); ok && w > 0 {
		limit = time.Duration(w)*time.Millisecond*3 + 5*time.Minute
	}
	ctx, cancel := stdctx.WithTimeout(stdctx.Background(), limit)
	defer cancel()
	cmd := exec.CommandContext(ctx, simBin, "-test.run", "^TestWorker$", "-test.timeout", "0", "-test.count", "1")
	cmd.Env = append(os.Environ(), "SIM_JOB="+jobFile, "GOMAXPROCS="+gomaxprocs)
	var stderr bytes.Buffer
	cmd.Stdout = &stderr
	cmd.Stderr = &stderr
	err := cmd.Run()
	if ctx.Err() != nil {
		stderr.WriteString("\nWORKER-STUCK: killed after " + limit.String() + " of real time (a run that neither finishes nor reaches the simulated watchdog)\n")
	}
	lastIdx = -1
	if jb, e := os.ReadFile(journal); e == nil {
		lines := strings.Split(strings.TrimSpace(string(jb)), "\n")
		if len(lines) > 0 {
			f := strings.Fields(lines[len(lines)-1])
			if len(f) >= 2 {
				lastIdx, _ = strconv.Atoi(f[1])
			}
		}
	}
	rb, rerr := os.ReadFile(out)
	if err != nil || rerr != nil {
		s := stderr.String()
		if len(s) > 6000 {
			s = s[:3000] + "\n…\n" + s[len(s)-3000:]
		}
		return nil, true, s, lastIdx
	}
	res = &workerResult{}
	if e := json.Unmarshal(rb, res); e != nil {
		return nil, true, "bad result file: " + e.Error(), lastIdx
	}
	return res, false, "", lastIdx
}

func replayOnce(simBin, path string) (reproduced bool, output string) {
	cmd := exec.Command(simBin, "-test.run", "^TestReplay$", "-test.timeout", "0", "-test.count", "1")
	cmd.Env = append(os.Environ(), "SIM_REPLAY="+path)
	out, _ := cmd.CombinedOutput()
	return bytes.Contains(out, []byte("REPRODUCED property=")) && !bytes.Contains(out, []byte("NOT-REPRODUCED")), string(out)
}

func check(id, tier string) int {
	p := props[id]
	if p == nil {
		die(2, "unknown property %q", id)
	}
	start := time.Now()
	baseSeed := uint64(1)
	if s := os.Getenv("VERIF_SEED"); s != "" {
		if n, err := strconv.ParseUint(s, 10, 64); err == nil {
			baseSeed = n
		} else if n, err := strconv.ParseInt(s, 10, 64); err == nil {
			baseSeed = uint64(n)
		}
	}
	simBin, dsRep := build()
	if p.Engine == "special" {
		return specialCheck(p, tier, baseSeed, simBin, start)
	}
	dir := filepath.Join(root, "build", fmt.Sprintf("run-%s-%s-%d", id, tier, os.Getpid()))
	os.MkdirAll(dir, 0o755)
	defer os.RemoveAll(dir)
	replayDir := filepath.Join(root, "replays")
	if d := os.Getenv("VERIF_REPLAY_DIR"); d != "" {
		replayDir = d
	}
	os.MkdirAll(replayDir, 0o755)
	// stale replay files of this property/engine are removed: they are rewritten if the violation persists
	if old, _ := filepath.Glob(filepath.Join(replayDir, id+"-"+p.Engine+"-*.json")); old != nil {
		for _, f := range old {
			os.Remove(f)
		}
	}
	nw := numWorkers()
	wall, maxRuns := p.QuickMs, p.QuickMax
	if tier == "thorough" {
		wall, maxRuns = p.ThorMs, p.ThorMax
	}
	if s := os.Getenv("VERIF_WALL_MS"); s != "" {
		if n, err := strconv.ParseInt(s, 10, 64); err == nil {
			wall = n
		}
	}
	results := make([]*workerResult, nw)
	type death struct {
		idx  int
		tail string
	}
	var deaths []death
	isolatedWorkers := 0
	var mu sync.Mutex
	var wg sync.WaitGroup
	for k := 0; k < nw; k++ {
		wg.Add(1)
		go func(k int) {
			defer wg.Done()
			offset := k
			remaining := wall
			t0 := time.Now()
			merged := &workerResult{Faults: map[string]int{}, Probes: map[string]int{}, Extra: map[string]int{}}
			first := true
			isolated := false
			for attempt := 0; attempt < 20 || isolated; attempt++ {
				mr := maxRuns
				if isolated {
					mr = 1 // one process per run: package-level state of the code under test cannot leak between simulated worlds
				}
				minim := 250
				if isolated {
					minim = 0 // the minimiser re-runs worlds in the same process
				}
				job := map[string]any{"engine": p.Engine, "property": id, "tier": tier, "baseSeed": baseSeed, "offset": offset, "stride": nw,
					"maxRuns": mr, "wallMs": remaining, "replayDir": replayDir, "minimize": minim, "mode": p.Mode, "isolated": isolated}
				res, crashed, tail, lastIdx := runWorker(simBin, job, dir, k, "2")
				if !crashed {
					mergeInto(merged, res, first)
					first = false
					if !isolated {
						break
					}
					offset += nw
					remaining = wall - time.Since(t0).Milliseconds()
					if remaining <= 500 {
						break
					}
					continue
				}
				if !isolated && crossBubble(tail) && lastIdx >= 0 {
					// A channel or timer created in one simulated world was used in a later one: the code
					// under test keeps such objects in package-level state. Not a verdict and not a harness
					// fault: go on with one process per run, starting again at the run that died.
					isolated = true
					mu.Lock()
					isolatedWorkers++
					mu.Unlock()
					offset = lastIdx
					remaining = wall - time.Since(t0).Milliseconds()
					if remaining <= 500 {
						break
					}
					continue
				}
				// The worker died: attribute the death to the run it had started and go on after it.
				mu.Lock()
				deaths = append(deaths, death{lastIdx, tail})
				mu.Unlock()
				if lastIdx < 0 {
					break
				}
				offset = lastIdx + nw
				remaining = wall - time.Since(t0).Milliseconds()
				if remaining <= 1000 {
					break
				}
				if !isolated {
					first = false
				}
			}
			results[k] = merged
		}(k)
	}
	wg.Wait()

	if second := map[string]string{"with-kill": "createkill", "with-failstop": "failstop", "with-crash": "crash", "with-realkill": "realkill"}[p.Mode]; second != "" {
		// second pass with another engine
		wall2 := wall
		if second == "failstop" || second == "crash" {
			wall2 = wall / 3
		}
		if second == "realkill" {
			wall2 = wall / 5
		}
		kres := make([]*workerResult, nw)
		var wg2 sync.WaitGroup
		for k := 0; k < nw; k++ {
			wg2.Add(1)
			go func(k int) {
				defer wg2.Done()
				job := map[string]any{"engine": second, "property": id, "tier": tier, "baseSeed": baseSeed, "offset": k, "stride": nw,
					"maxRuns": maxRuns, "wallMs": wall2, "replayDir": replayDir, "minimize": 0}
				res, crashed, tail, _ := runWorker(simBin, job, dir, 500+k, "2")
				if crashed {
					mu.Lock()
					deaths = append(deaths, death{-1, second + " worker: " + tail})
					mu.Unlock()
					return
				}
				kres[k] = res
			}(k)
		}
		wg2.Wait()
		results = append(results, kres...)
	}
	total := &workerResult{Faults: map[string]int{}, Probes: map[string]int{}, Extra: map[string]int{}}
	sigs := map[string]bool{}
	for _, r := range results {
		if r == nil {
			continue
		}
		mergeInto(total, r, len(total.Samples) == 0)
		for _, s := range r.Sigs {
			sigs[s] = true
		}
	}
	// group violations by class, keep the smallest index as representative
	byClass := map[string]*found{}
	for _, f := range total.Found {
		if cur := byClass[f.V.Class]; cur == nil || f.Index < cur.Index {
			if cur != nil {
				f.Count += cur.Count
			}
			byClass[f.V.Class] = f
		} else {
			cur.Count += f.Count
		}
	}
	var classes []string
	for c := range byClass {
		classes = append(classes, c)
	}
	sort.Strings(classes)

	// process deaths: an engine panic or exit. Confirm by re-running the index alone.
	var deathNotes []string
	exit := 0
	for _, d := range deaths {
		if d.idx < 0 {
			fmt.Printf("HARNESS-TROUBLE worker died before its first run:\n%s\n", d.tail)
			exit = 2
			continue
		}
		if strings.Contains(d.tail, "WORKER-STUCK") {
			fmt.Printf("HARNESS-TROUBLE run index %d (base seed %d) never finished in real time: it blocks on something the simulated clock cannot see; not a verdict\n", d.idx, baseSeed)
			exit = 2
			continue
		}
		job := map[string]any{"engine": p.Engine, "property": id, "tier": tier, "baseSeed": baseSeed, "only": []int{d.idx}, "replayDir": replayDir, "minimize": 0, "mode": p.Mode}
		_, crashed, tail, _ := runWorker(simBin, job, dir, 1000+d.idx, "2")
		first := firstPanicLine(tail)
		if !crashed {
			fmt.Printf("HARNESS-TROUBLE worker death at run %d did not reproduce:\n%s\n", d.idx, d.tail)
			exit = 2
			continue
		}
		note := fmt.Sprintf("process died in run index %d (seed base %d): %s", d.idx, baseSeed, first)
		deathNotes = append(deathNotes, note)
		if id == "C12" {
			// the process must never panic or exit (C12)
			rp := filepath.Join(replayDir, fmt.Sprintf("C12-%s-death-%d.json", p.Engine, d.idx))
			rb, _ := json.MarshalIndent(map[string]any{"property": "C12", "engine": p.Engine, "class": "C12.r5 process died: " + first, "baseSeed": baseSeed, "index": d.idx, "death": true, "stderr": tail}, "", " ")
			os.WriteFile(rp, rb, 0o644)
			f := &found{Index: d.idx, Replay: rp, Count: 1}
			f.V.Prop, f.V.Rule, f.V.Class, f.V.Msg = "C12", "C12.r5", "C12.r5 process died: "+first, note
			if byClass[f.V.Class] == nil {
				byClass[f.V.Class] = f
				classes = append(classes, f.V.Class)
			}
		}
	}

	known := loadKnown()
	nViol := 0
	var knownHit []string
	for _, c := range classes {
		f := byClass[c]
		isKnown := false
		for _, k := range known {
			if k.Status == "known" && k.Property == f.V.Prop && k.Class == c {
				isKnown = true
			}
		}
		if isKnown {
			fmt.Printf("KNOWN-FINDING: property=%s %s (seen %d times; e.g. run index %d)\n", f.V.Prop, c, f.Count, f.Index)
			knownHit = append(knownHit, c)
			continue
		}
		// confirm by replaying in a fresh process
		if f.Replay != "" && !strings.Contains(f.Replay, "-death-") {
			ok, out := replayOnce(simBin, f.Replay)
			if !ok {
				fmt.Printf("NONDETERMINISM class %q found at run index %d does not reproduce from %s:\n%s\n", c, f.Index, f.Replay, out)
				exit = 2
				continue
			}
		}
		nViol++
		fmt.Printf("VIOLATION property=%s replay=%s\n", f.V.Prop, f.Replay)
		if os.Getenv("VERIF_BRIEF") != "" {
			fmt.Printf("  class: %s (x%d)\n", c, f.Count)
		} else {
			fmt.Printf("  class: %s\n  first witness: run index %d, seed %d: %s\n  occurrences in this batch: %d\n", c, f.Index, f.Seed, f.V.Msg, f.Count)
		}
	}
	for _, h := range total.Harness {
		fmt.Printf("HARNESS-TROUBLE %s\n", h)
		exit = 2
	}
	for i, h := range total.Fidelity {
		if i < 10 {
			fmt.Printf("FIDELITY-WARNING property=%s (real-process cross-validation, not a verdict) %s\n", id, h)
		}
	}

	wallS := time.Since(start).Seconds()
	cov := map[string]any{
		"evaluations":         total.Runs,
		"distinct_nontrivial": len(sigs),
		"nontrivial_runs":     total.Nontrivial,
		"rule":                p.Rule,
		"samples":             total.Samples,
		"runs_per_hour":       int(float64(total.Runs) / (float64(wall) / 1000 / 3600)),
		"seeds":               map[string]any{"base": baseSeed, "derivation": "run seed = Mix(base, hash(engine/property), run index)", "first_run_seed": total.FirstSeed, "last_run_seed": total.LastSeed},
		"sim_seconds_total":   float64(total.SimNs) / 1e9,
		"scheduler_decisions": total.Steps,
		"events":              total.Events,
		"faults_fired":        total.Faults,
		"probes":              total.Probes,
		"hangs":               total.Hangs,
		"step_budget_overruns": total.Overruns,
		"process_deaths":      deathNotes,
		"workers":             nw,
		"detsel": map[string]any{"rewritten_selects": dsRep.Rewritten, "refused": dsRep.Refused, "files_scanned": dsRep.Files, "clause_orders_drawn": total.Detsel, "yield_points_inserted": dsRep.Yields},
		"components": componentsOf(p.Engine, p.Mode),
		"known_findings_hit": knownHit,
		"exhaustive":         false,
	}
	for k, v := range total.Extra {
		cov[k] = v
	}
	cov["workers_switched_to_one_process_per_run"] = isolatedWorkers
	if p.Mode == "with-realkill" {
		notes := total.Fidelity
		if notes == nil {
			notes = []string{}
		}
		cov["realkill_fidelity_notes"] = notes
	}
	unreached := []string{}
	for _, k := range expectedProbes(id) {
		if total.Probes[k] == 0 && total.Faults[k] == 0 {
			unreached = append(unreached, k)
		}
	}
	cov["unreached"] = unreached
	ev := map[string]any{
		"property_id": id,
		"tier":        tier,
		"seed":        int64(baseSeed),
		"level":       p.Level,
		"coverage":    cov,
		"assumptions": []string{
			"worker pool of fixed static size 64 created inside each simulated world (independent of the CPU count)",
			"sim plugins' retry policy has RandomizationFactor 0 (back-off instants are a function of the attempt number)",
			"SQLite (zombiezen/modernc), the Go runtime and testing/synctest are trusted",
			"a crash is modelled as: no further call of the dead incarnation reaches the store or a plugin; each Update* is atomic (one auto-committed statement)",
			"schedules are explored at seam granularity (storage call, plugin entry/exit, API call); the only multi-ready select of the engine is ordered by the simulator through the detsel overlay",
		},
		"wall_s":     wallS,
		"violations": nViol,
	}
	if os.Getenv("VERIF_NO_EVIDENCE") == "" {
		os.MkdirAll(filepath.Join(root, "evidence"), 0o755)
		eb, _ := json.MarshalIndent(ev, "", " ")
		if err := os.WriteFile(filepath.Join(root, "evidence", id+".json"), eb, 0o644); err != nil {
			die(2, "cannot write evidence: %v", err)
		}
	}
	fmt.Printf("%s %s: %d runs (%d non-trivial, %d distinct signatures), %.0f simulated s, %d violation class(es), %d known, wall %.1fs\n",
		id, tier, total.Runs, total.Nontrivial, len(sigs), float64(total.SimNs)/1e9, nViol, len(knownHit), wallS)
	if nViol > 0 {
		return 1
	}
	if total.Runs == 0 {
		fmt.Println("HARNESS-TROUBLE no run was executed")
		return 2
	}
	return exit
}

func componentsOf(engine, mode string) map[string]any {
	if engine == "store" {
		real := []string{"workflow/storage/sqlite (creator, reader, updater, deleter, schema) on zombiezen+modernc SQLite, in-memory and file-backed in a temp directory", "workflow/storage/cosmosdb (creator, reader, updater, deleter, encoders) through the verif-tagged NewFakeVault hook", "plugins/registry (request/response decoding)", "gostdlib worker pool (stream goroutines)"}
		stub := []string{"Azure CosmosDB service: the package's own in-memory fake client (ignores ORDER BY, status/group predicates and LIMIT; not transactional across partitions)", "wall clock (testing/synctest fake clock)"}
		if mode == "with-kill" {
			real = append(real, "createkill pass: real child process, real file system, real SIGKILL / errno at a counted system call (strace injection)")
		}
		return map[string]any{"real": real, "stub": stub}
	}
	real := []string{"coercion.Workstream", "internal/execute (Start, runPlan, Wait, recovery)", "internal/execute/sm (all states, finalStates, recovery fix-ups)", "sm/actions (retry loop, timeout race, type check)", "workflow (Validate, Defaults), walk, registry, context", "gostdlib statemachine / worker pool / sync.Group / ShardedMap / exponential back-off", "workflow/storage/sqlite on zombiezen+modernc SQLite (in-memory)"}
	if mode == "with-realkill" {
		real = append(real, "realkill cross-validation pass: real child processes, real file-backed SQLite, real clock and Go scheduler, real SIGKILL (self-sent before a counted durable write), recovery in a fresh process")
	}
	return map[string]any{
		"real": real,
		"stub": []string{"plugins (scripted sim plugins: the environment)", "wall clock (testing/synctest fake clock)", "process death (generation switch: writes of a dead incarnation are dropped)"},
	}
}

// crossBubble recognises the runtime's complaints about an object made in one
// testing/synctest bubble and used in another (or outside any).
func crossBubble(tail string) bool {
	for _, m := range []string{"from outside bubble", "outside synctest bubble", "multiple synctest bubbles", "different synctest bubble"} {
		if strings.Contains(tail, m) {
			return true
		}
	}
	return false
}

func firstPanicLine(s string) string {
	for _, l := range strings.Split(s, "\n") {
		if strings.HasPrefix(l, "panic:") || strings.HasPrefix(l, "fatal error:") {
			return strings.TrimSpace(l)
		}
	}
	for _, l := range strings.Split(s, "\n") {
		if strings.TrimSpace(l) != "" {
			return strings.TrimSpace(l)
		}
	}
	return "no output"
}

func expectedProbes(id string) []string {
	switch id {
	case "C03":
		return []string{"tolerance exceeded", "tolerance exceeded with concurrency>=2", "failures within tolerance"}
	case "C05":
		return []string{"attempt timed out", "retry succeeded after a failed attempt", "wrong response type", "plugin ignored cancellation"}
	case "C06":
		return []string{"bypass succeeded", "bypass failed", "continuous check failed at its initial run"}
	case "C07":
		return []string{"continuous check failed at a later run", "continuous check ran >= 5 times"}
	case "C12":
		return []string{"overlapping Start calls"}
	}
	return nil
}

func mergeInto(dst, src *workerResult, takeSamples bool) {
	if src == nil {
		return
	}
	if dst.Runs == 0 {
		dst.FirstSeed = src.FirstSeed
	}
	dst.LastSeed = src.LastSeed
	dst.Runs += src.Runs
	dst.Nontrivial += src.Nontrivial
	dst.Sigs = append(dst.Sigs, src.Sigs...)
	dst.SimNs += src.SimNs
	dst.Steps += src.Steps
	dst.Events += src.Events
	dst.Overruns += src.Overruns
	dst.Hangs += src.Hangs
	dst.Detsel += src.Detsel
	for k, v := range src.Faults {
		dst.Faults[k] += v
	}
	for k, v := range src.Probes {
		dst.Probes[k] += v
	}
	for k, v := range src.Extra {
		dst.Extra[k] += v
	}
	dst.Found = append(dst.Found, src.Found...)
	dst.Harness = append(dst.Harness, src.Harness...)
	dst.Fidelity = append(dst.Fidelity, src.Fidelity...)
	if takeSamples && len(dst.Samples) < 3 {
		dst.Samples = append(dst.Samples, src.Samples...)
		if len(dst.Samples) > 3 {
			dst.Samples = dst.Samples[:3]
		}
	}
	if src.WallMs > dst.WallMs {
		dst.WallMs = src.WallMs
	}
}

func replayCmd(path string) int {
	simBin, _ := build()
	b, err := os.ReadFile(path)
	if err != nil {
		die(2, "replay: %v", err)
	}
	var rep struct {
		Property string `json:"property"`
		Class    string `json:"class"`
		Death    bool   `json:"death"`
		Engine   string `json:"engine"`
		BaseSeed uint64 `json:"baseSeed"`
		Index    int    `json:"index"`
	}
	json.Unmarshal(b, &rep)
	if rep.Death {
		dir := filepath.Join(root, "build", fmt.Sprintf("replay-%d", os.Getpid()))
		os.MkdirAll(dir, 0o755)
		defer os.RemoveAll(dir)
		job := map[string]any{"engine": rep.Engine, "property": rep.Property, "baseSeed": rep.BaseSeed, "only": []int{rep.Index}, "minimize": 0}
		_, crashed, tail, _ := runWorker(simBin, job, dir, 0, "2")
		if crashed {
			fmt.Printf("VIOLATION property=%s replay=%s\n  %s\n%s\n", rep.Property, path, rep.Class, tail)
			return 1
		}
		fmt.Println("not reproduced: the process did not die")
		return 0
	}
	cmd := exec.Command(simBin, "-test.run", "^TestReplay$", "-test.timeout", "0", "-test.count", "1")
	cmd.Env = append(os.Environ(), "SIM_REPLAY="+path)
	out, _ := cmd.CombinedOutput()
	os.Stdout.Write(out)
	if bytes.Contains(out, []byte("REPRODUCED property=")) && !bytes.Contains(out, []byte("NOT-REPRODUCED")) {
		fmt.Printf("VIOLATION property=%s replay=%s\n", rep.Property, path)
		return 1
	}
	return 0
}

func main() {
	if v := os.Getenv("VERIF_ROOT"); v != "" {
		root = v
	}
	if v := os.Getenv("VERIF_REPO"); v != "" {
		repo = v
	}
	args := os.Args[1:]
	if len(args) == 0 {
		die(2, "usage: verif check <id> [--tier quick|thorough] | replay <file> | build | detsel <repo> <out> | selftest determinism")
	}
	switch args[0] {
	case "detsel":
		if len(args) < 3 {
			die(2, "usage: verif detsel <repo> <out>")
		}
		ov, rep, err := detsel.Generate(args[1], args[2])
		if err != nil {
			die(2, "%v", err)
		}
		fmt.Println(ov)
		fmt.Printf("%+v\n", *rep)
	case "build":
		bin, rep := build()
		fmt.Println(bin)
		fmt.Printf("%+v\n", *rep)
	case "check":
		if len(args) < 2 {
			die(2, "usage: verif check <id> [--tier quick|thorough]")
		}
		tier := os.Getenv("VERIF_TIER")
		for i := 2; i < len(args); i++ {
			if args[i] == "--tier" && i+1 < len(args) {
				tier = args[i+1]
			}
		}
		if tier != "thorough" {
			tier = "quick"
		}
		os.Exit(check(args[1], tier))
	case "replay":
		if len(args) < 2 {
			die(2, "usage: verif replay <file>")
		}
		os.Exit(replayCmd(args[1]))
	case "selftest":
		os.Exit(selftest(args[1:]))
	default:
		die(2, "unknown command %q", args[0])
	}
}
