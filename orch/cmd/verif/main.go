package main

import (
	"fmt"
	"os"

	"veriforch/detsel"
)

func main() {
	if len(os.Args) >= 4 && os.Args[1] == "detsel" {
		ov, rep, err := detsel.Generate(os.Args[2], os.Args[3])
		if err != nil {
			fmt.Fprintln(os.Stderr, err)
			os.Exit(2)
		}
		fmt.Println(ov)
		fmt.Printf("%+v\n", *rep)
		return
	}
	fmt.Fprintln(os.Stderr, "usage")
	os.Exit(2)
}
