// Package detsel generates a build overlay in which every non-blocking select
// with two or more receive clauses of the repository is replaced by the same
// clauses polled one at a time in an order chosen by a hook
// (verifhook.Perm), so that the simulator — not the Go runtime's unseedable
// choice among ready cases — decides which ready clause wins. Every behaviour
// of the rewritten statement is a behaviour of the original. The repository
// tree is never modified: the result is fed to the compiler with -overlay.
package detsel

import (
	"bytes"
	"encoding/json"
	"fmt"
	"go/ast"
	"go/parser"
	"go/token"
	"os"
	"path/filepath"
	"sort"
	"strings"
)

const hookImport = `github.com/element-of-surprise/coercion/verifhook`

const hookSrc = `// Package verifhook exists only in the verification build overlay.
package verifhook

import "sync/atomic"

var perm atomic.Pointer[func(int) []int]

// SetPerm installs the function that orders the clauses of rewritten selects.
func SetPerm(f func(int) []int) {
	if f == nil {
		perm.Store(nil)
		return
	}
	perm.Store(&f)
}

var yield atomic.Pointer[func(string)]

// SetYield installs the function called at every inserted scheduling point.
func SetYield(f func(string)) {
	if f == nil {
		yield.Store(nil)
		return
	}
	yield.Store(&f)
}

var held atomic.Int64

// Locked / Unlocked bracket the engine's own mutex regions (inserted after every
// Lock / RLock and every Unlock / RUnlock of the instrumented packages).
func Locked()   { held.Add(1) }
func Unlocked() { held.Add(-1) }

// Yield is a scheduling point inserted before an access to shared in-memory state.
// It does nothing while any instrumented mutex is held: a goroutine must never be
// parked while it, or a caller of it, holds a mutex.
func Yield(where string) {
	if held.Load() > 0 {
		return
	}
	if f := yield.Load(); f != nil {
		(*f)(where)
	}
}

// Valuer is what a scheduling point needs of a context.Context.
type Valuer interface{ Value(key any) any }

var yieldCtx atomic.Pointer[func(Valuer, string)]

// SetYieldCtx installs the function called at the scheduling points that have a
// context in scope.
func SetYieldCtx(f func(Valuer, string)) {
	if f == nil {
		yieldCtx.Store(nil)
		return
	}
	yieldCtx.Store(&f)
}

// YieldCtx is Yield for a scheduling point with a context.Context in scope: the
// simulator reads from it which simulated process the calling goroutine belongs to.
func YieldCtx(ctx Valuer, where string) {
	if held.Load() > 0 {
		return
	}
	if f := yieldCtx.Load(); f != nil && ctx != nil {
		(*f)(ctx, where)
		return
	}
	if f := yield.Load(); f != nil {
		(*f)(where)
	}
}

// Perm returns the order in which n receive clauses are polled.
func Perm(n int) []int {
	if f := perm.Load(); f != nil {
		return (*f)(n)
	}
	out := make([]int, n)
	for i := range out {
		out[i] = i
	}
	return out
}
`

// Report says what the pass did.
type Report struct {
	Rewritten []string `json:"rewritten"` // file:line of every rewritten select
	Refused   []string `json:"refused"`   // matching selects left alone, with the reason
	Files     int      `json:"files_scanned"`
	Yields    []string `json:"yields"` // file:line of every inserted scheduling point
}

// Generate scans repo, writes rewritten files and overlay.json under outDir and
// returns the path of overlay.json.
func Generate(repo, outDir string) (string, *Report, error) {
	rep := &Report{}
	var err error
	if repo, err = filepath.Abs(repo); err != nil {
		return "", nil, err
	}
	if outDir, err = filepath.Abs(outDir); err != nil {
		return "", nil, err
	}
	if err := os.RemoveAll(outDir); err != nil {
		return "", nil, err
	}
	if err := os.MkdirAll(filepath.Join(outDir, "verifhook"), 0o755); err != nil {
		return "", nil, err
	}
	replace := map[string]string{}
	hookPath := filepath.Join(outDir, "verifhook", "hook.go")
	if err := os.WriteFile(hookPath, []byte(hookSrc), 0o644); err != nil {
		return "", nil, err
	}
	replace[filepath.Join(repo, "verifhook", "hook.go")] = hookPath

	var files []string
	err = filepath.Walk(repo, func(p string, info os.FileInfo, err error) error {
		if err != nil {
			return err
		}
		if info.IsDir() {
			n := info.Name()
			if n == ".git" || n == "vendor" || n == "testdata" || n == "node_modules" {
				return filepath.SkipDir
			}
			return nil
		}
		if strings.HasSuffix(p, ".go") && !strings.HasSuffix(p, "_test.go") {
			files = append(files, p)
		}
		return nil
	})
	if err != nil {
		return "", nil, err
	}
	sort.Strings(files)
	n := 0
	for _, f := range files {
		src, err := os.ReadFile(f)
		if err != nil {
			return "", nil, err
		}
		rep.Files++
		if !bytes.Contains(src, []byte("select")) && !yieldScope(f, repo) {
			continue
		}
		out, changed, err := rewriteFile(f, src, repo, rep)
		if err != nil {
			return "", nil, fmt.Errorf("%s: %w", f, err)
		}
		if !changed {
			continue
		}
		n++
		dst := filepath.Join(outDir, fmt.Sprintf("f%03d_%s", n, filepath.Base(f)))
		if err := os.WriteFile(dst, out, 0o644); err != nil {
			return "", nil, err
		}
		replace[f] = dst
	}
	ov, _ := json.MarshalIndent(map[string]any{"Replace": replace}, "", " ")
	ovPath := filepath.Join(outDir, "overlay.json")
	if err := os.WriteFile(ovPath, ov, 0o644); err != nil {
		return "", nil, err
	}
	return ovPath, rep, nil
}

type edit struct {
	start, end int
	text       string
}

func rewriteFile(name string, src []byte, repo string, rep *Report) ([]byte, bool, error) {
	fset := token.NewFileSet()
	f, err := parser.ParseFile(fset, name, src, parser.ParseComments)
	if err != nil {
		// not our business: the compiler will complain
		return nil, false, nil
	}
	rel, _ := filepath.Rel(repo, name)
	off := func(p token.Pos) int { return fset.Position(p).Offset }
	var edits []edit
	label := 0
	// render returns src[a:b] with every edit collected so far that lies inside it applied
	// (nested selects that were already rewritten, inserted scheduling points).
	render := func(a, b int) string {
		var in []edit
		for _, e := range edits {
			if e.start >= a && e.end <= b {
				in = append(in, e)
			}
		}
		sort.SliceStable(in, func(i, j int) bool { return in[i].start < in[j].start })
		var sb strings.Builder
		pos := a
		for _, e := range in {
			if e.start < pos {
				continue
			}
			sb.Write(src[pos:e.start])
			sb.WriteString(e.text)
			pos = e.end
		}
		sb.Write(src[pos:b])
		return sb.String()
	}
	dropInside := func(a, b int) {
		keep := edits[:0]
		for _, e := range edits {
			if !(e.start >= a && e.end <= b) {
				keep = append(keep, e)
			}
		}
		edits = keep
	}
	if yieldScope(name, repo) {
		for _, d := range f.Decls {
			fd, ok := d.(*ast.FuncDecl)
			if !ok || fd.Body == nil {
				continue
			}
			locked := false
			yieldBlock(fd.Body.List, &locked, func(st ast.Stmt) {
				o := off(st.Pos())
				where := fmt.Sprintf("%s:%d", rel, fset.Position(st.Pos()).Line)
				edits = append(edits, edit{o, o, yieldCall(f, st.Pos(), where) + "; "})
				rep.Yields = append(rep.Yields, where)
			})
		}
		// bracket mutex regions
		ast.Inspect(f, func(n ast.Node) bool {
			switch v := n.(type) {
			case *ast.ExprStmt:
				if name, ok := lockCall(v.X); ok {
					e := off(v.End())
					if name == "Lock" || name == "RLock" {
						edits = append(edits, edit{e, e, "; verifhook.Locked()"})
					} else {
						edits = append(edits, edit{e, e, "; verifhook.Unlocked()"})
					}
				}
			case *ast.DeferStmt:
				if name, ok := lockCall(v.Call); ok && (name == "Unlock" || name == "RUnlock") {
					call := string(src[off(v.Call.Pos()):off(v.Call.End())])
					edits = append(edits, edit{off(v.Pos()), off(v.End()), "defer func() { " + call + "; verifhook.Unlocked() }()"})
				}
			}
			return true
		})
	}
	var sels []*ast.SelectStmt
	ast.Inspect(f, func(n ast.Node) bool {
		if sel, ok := n.(*ast.SelectStmt); ok {
			sels = append(sels, sel)
		}
		return true
	})
	// innermost first: a rewritten select is baked into the text of the one around it
	sort.SliceStable(sels, func(i, j int) bool { return sels[i].End()-sels[i].Pos() < sels[j].End()-sels[j].Pos() })
	handle := func(sel *ast.SelectStmt) {
		var recv []*ast.CommClause
		var def *ast.CommClause
		allRecv := true
		for _, c := range sel.Body.List {
			cc := c.(*ast.CommClause)
			if cc.Comm == nil {
				def = cc
				continue
			}
			if !isRecv(cc.Comm) {
				allRecv = false
			}
			recv = append(recv, cc)
		}
		where := fmt.Sprintf("%s:%d", rel, fset.Position(sel.Pos()).Line)
		if def == nil && len(recv) >= 2 && yieldScope(name, repo) {
			// Blocking select of the engine with several clauses: when more than one is ready the
			// Go runtime picks at random. Poll the clauses once in simulator order first, then
			// fall back to the original statement. Only when re-evaluating the clause expressions
			// is harmless (identifiers, selector chains, x.Done()).
			for _, cc := range recv {
				if !simpleComm(cc.Comm) {
					rep.Refused = append(rep.Refused, where+": blocking select with a clause expression that cannot be re-evaluated")
					return
				}
				if hasBareBreak(cc.Body) || hasLabel(cc.Body) || hasBareContinue(cc.Body) {
					rep.Refused = append(rep.Refused, where+": blocking select whose clause body has an unlabeled break / continue or a label")
					return
				}
			}
			label++
			lab := fmt.Sprintf("detselL%d", label)
			clauseEndB := func(i int) int {
				if i+1 < len(sel.Body.List) {
					return off(sel.Body.List[i+1].Pos())
				}
				return off(sel.Body.Rbrace)
			}
			var b strings.Builder
			fmt.Fprintf(&b, "%s\n%s:\n\tswitch {\n\tdefault:\n\t\tfor _, detselI := range verifhook.Perm(%d) {\n\t\t\tswitch detselI {\n", yieldCall(f, sel.Pos(), where), lab, len(recv))
			for k, c := range sel.Body.List {
				cc := c.(*ast.CommClause)
				comm := string(src[off(cc.Comm.Pos()):off(cc.Comm.End())])
				body := render(off(cc.Colon)+1, clauseEndB(k))
				fmt.Fprintf(&b, "\t\t\tcase %d:\n\t\t\t\tselect {\n\t\t\t\tcase %s:\n%s\n\t\t\t\t\tbreak %s\n\t\t\t\tdefault:\n\t\t\t\t}\n", k, comm, body, lab)
			}
			b.WriteString("\t\t\t}\n\t\t}\n\t\t")
			// second copy of the bodies: labels of baked-in inner rewrites must stay unique
			b.WriteString(strings.ReplaceAll(render(off(sel.Pos()), off(sel.End())), "detselL", lab+"x"))
			b.WriteString("\n\t}")
			if allReturn(sel) {
				// the original select was a terminating statement; the labelled switch is not
				b.WriteString("\n\tpanic(\"detsel: unreachable\")")
			}
			dropInside(off(sel.Pos()), off(sel.End()))
			edits = append(edits, edit{off(sel.Pos()), off(sel.End()), b.String()})
			rep.Rewritten = append(rep.Rewritten, where+" (blocking)")
			rep.Yields = append(rep.Yields, where)
			return
		}
		if def == nil || len(recv) < 2 {
			return
		}
		if !allRecv {
			rep.Refused = append(rep.Refused, where+": has a send clause")
			return
		}
		for _, c := range sel.Body.List {
			if hasBareBreak(c.(*ast.CommClause).Body) || hasBareContinue(c.(*ast.CommClause).Body) {
				rep.Refused = append(rep.Refused, where+": clause body has an unlabeled break or continue")
				return
			}
		}
		label++
		lab := fmt.Sprintf("detselL%d", label)
		clauseEnd := func(i int) int {
			if i+1 < len(sel.Body.List) {
				return off(sel.Body.List[i+1].Pos())
			}
			return off(sel.Body.Rbrace)
		}
		idxOf := func(cc *ast.CommClause) int {
			for i, c := range sel.Body.List {
				if c == cc {
					return i
				}
			}
			return -1
		}
		var b strings.Builder
		fmt.Fprintf(&b, "%s:\n\tswitch {\n\tdefault:\n\t\tfor _, detselI := range verifhook.Perm(%d) {\n\t\t\tswitch detselI {\n", lab, len(recv))
		for k, cc := range recv {
			comm := string(src[off(cc.Comm.Pos()):off(cc.Comm.End())])
			body := render(off(cc.Colon)+1, clauseEnd(idxOf(cc)))
			fmt.Fprintf(&b, "\t\t\tcase %d:\n\t\t\t\tselect {\n\t\t\t\tcase %s:\n%s\n\t\t\t\t\tbreak %s\n\t\t\t\tdefault:\n\t\t\t\t}\n", k, comm, body, lab)
		}
		b.WriteString("\t\t\t}\n\t\t}\n")
		b.WriteString(render(off(def.Colon)+1, clauseEnd(idxOf(def))))
		b.WriteString("\n\t}")
		dropInside(off(sel.Pos()), off(sel.End()))
		edits = append(edits, edit{off(sel.Pos()), off(sel.End()), b.String()})
		rep.Rewritten = append(rep.Rewritten, where)
	}
	for _, sel := range sels {
		handle(sel)
	}
	if len(edits) == 0 {
		return nil, false, nil
	}
	sort.SliceStable(edits, func(i, j int) bool { return edits[i].start > edits[j].start })
	out := append([]byte(nil), src...)
	for _, e := range edits {
		out = append(out[:e.start], append([]byte(e.text), out[e.end:]...)...)
	}
	// add the hook import right after the package clause
	pkgEnd := off(f.Name.End())
	imp := fmt.Sprintf("\n\nimport verifhook %q\n", hookImport)
	out = append(out[:pkgEnd], append([]byte(imp), out[pkgEnd:]...)...)
	// sanity: the result must parse
	if _, err := parser.ParseFile(token.NewFileSet(), name, out, 0); err != nil {
		return nil, false, fmt.Errorf("rewritten file does not parse: %w", err)
	}
	return out, true, nil
}

func isRecv(s ast.Stmt) bool {
	var x ast.Expr
	switch v := s.(type) {
	case *ast.ExprStmt:
		x = v.X
	case *ast.AssignStmt:
		if len(v.Rhs) != 1 {
			return false
		}
		x = v.Rhs[0]
	default:
		return false
	}
	u, ok := x.(*ast.UnaryExpr)
	return ok && u.Op == token.ARROW
}

// hasBareBreak reports an unlabeled break that would target the select itself.
func hasBareBreak(body []ast.Stmt) bool {
	found := false
	for _, s := range body {
		ast.Inspect(s, func(n ast.Node) bool {
			switch v := n.(type) {
			case *ast.ForStmt, *ast.RangeStmt, *ast.SwitchStmt, *ast.TypeSwitchStmt, *ast.SelectStmt, *ast.FuncLit:
				return false // a bare break inside targets that statement
			case *ast.BranchStmt:
				if v.Tok == token.BREAK && v.Label == nil {
					found = true
				}
			}
			return true
		})
	}
	return found
}

// yieldScope: scheduling points are inserted in the engine's own packages only.
func yieldScope(name, repo string) bool {
	rel, err := filepath.Rel(repo, name)
	if err != nil {
		return false
	}
	rel = filepath.ToSlash(rel)
	if strings.Contains(rel, "/testing/") {
		return false
	}
	return strings.HasPrefix(rel, "internal/execute/")
}

var sharedCalls = map[string]bool{"Lock": true, "RLock": true, "Get": true, "Set": true, "Del": true, "Delete": true,
	"CompareAndSwap": true, "Swap": true, "Add": true, "Load": true, "Store": true}

// sharedCall: the statement itself (not a nested block or function literal) calls a
// method that reads or writes shared in-memory state (a mutex, a concurrent map,
// an atomic). The match is by method name on a selector chain: a false positive
// only adds a harmless scheduling point.
func sharedCall(st ast.Stmt) (found, lock bool) {
	ast.Inspect(st, func(n ast.Node) bool {
		switch v := n.(type) {
		case *ast.BlockStmt, *ast.FuncLit:
			return false
		case *ast.CallExpr:
			if se, ok := v.Fun.(*ast.SelectorExpr); ok && sharedCalls[se.Sel.Name] {
				switch se.X.(type) {
				case *ast.SelectorExpr, *ast.Ident:
					found = true
					if se.Sel.Name == "Lock" || se.Sel.Name == "RLock" {
						lock = true
					}
				}
			}
		}
		return true
	})
	return
}

// yieldBlock walks the statement lists of one function in source order and reports
// the statements before which a scheduling point goes. After the first mutex
// acquisition of the function no further point is inserted in it: a goroutine
// must never be parked while it holds a mutex (a goroutine blocked on a mutex is
// not durably blocked for testing/synctest). Function literals are separate
// functions with their own flag.
func yieldBlock(list []ast.Stmt, locked *bool, emit func(ast.Stmt)) {
	for _, st := range list {
		switch v := st.(type) {
		case *ast.CaseClause: // the "statements" of a switch body are its clauses
			yieldBlock(v.Body, locked, emit)
			continue
		case *ast.CommClause:
			yieldBlock(v.Body, locked, emit)
			continue
		}
		if _, isDefer := st.(*ast.DeferStmt); !isDefer && !*locked {
			if _, isSend := st.(*ast.SendStmt); isSend {
				emit(st)
			} else if found, lock := sharedCall(st); found {
				emit(st)
				if lock {
					*locked = true
				}
			}
		}
		// nested statement lists and function literals
		ast.Inspect(st, func(n ast.Node) bool {
			switch v := n.(type) {
			case *ast.FuncLit:
				l := false
				yieldBlock(v.Body.List, &l, emit)
				return false
			case *ast.BlockStmt:
				yieldBlock(v.List, locked, emit)
				return false
			case *ast.CaseClause:
				yieldBlock(v.Body, locked, emit)
				return false
			case *ast.CommClause:
				yieldBlock(v.Body, locked, emit)
				return false
			}
			return true
		})
	}
}

// yieldCall returns the scheduling-point call to insert at pos: with the context that is
// in scope there (a parameter "ctx" of a context type, or "req.Ctx" of a state-machine
// request parameter "req", of the innermost enclosing function that has one), else without.
func yieldCall(f *ast.File, pos token.Pos, where string) string {
	if e := ctxExprAt(f, pos); e != "" {
		return fmt.Sprintf("verifhook.YieldCtx(%s, %q)", e, where)
	}
	return fmt.Sprintf("verifhook.Yield(%q)", where)
}

func ctxExprAt(f *ast.File, pos token.Pos) string {
	var chain []*ast.FuncType // outermost first
	ast.Inspect(f, func(n ast.Node) bool {
		if n == nil || pos < n.Pos() || pos >= n.End() {
			return false
		}
		switch v := n.(type) {
		case *ast.FuncDecl:
			chain = append(chain, v.Type)
		case *ast.FuncLit:
			chain = append(chain, v.Type)
		}
		return true
	})
	for i := len(chain) - 1; i >= 0; i-- {
		ft := chain[i]
		if ft.Params == nil {
			continue
		}
		for _, fld := range ft.Params.List {
			ty := exprText(fld.Type)
			for _, nm := range fld.Names {
				if nm.Name == "ctx" {
					if strings.HasSuffix(ty, "context.Context") || ty == "Context" {
						return "ctx"
					}
					return "" // a parameter named ctx of another type hides any outer context
				}
				if nm.Name == "req" && strings.Contains(ty, "statemachine.Request[") {
					return "req.Ctx"
				}
			}
		}
	}
	return ""
}

func exprText(e ast.Expr) string {
	switch v := e.(type) {
	case *ast.Ident:
		return v.Name
	case *ast.SelectorExpr:
		return exprText(v.X) + "." + v.Sel.Name
	case *ast.StarExpr:
		return "*" + exprText(v.X)
	case *ast.IndexExpr:
		return exprText(v.X) + "[" + exprText(v.Index) + "]"
	case *ast.IndexListExpr:
		return exprText(v.X) + "[...]"
	}
	return "?"
}

// lockCall: x.Lock() / x.RLock() / x.Unlock() / x.RUnlock() without arguments.
func lockCall(x ast.Expr) (string, bool) {
	c, ok := x.(*ast.CallExpr)
	if !ok || len(c.Args) != 0 {
		return "", false
	}
	se, ok := c.Fun.(*ast.SelectorExpr)
	if !ok {
		return "", false
	}
	switch se.Sel.Name {
	case "Lock", "RLock", "Unlock", "RUnlock":
		return se.Sel.Name, true
	}
	return "", false
}

// simpleComm: the communication clause only mentions identifiers, selector chains and
// x.Done() calls (and, for a send, such a value), so evaluating it again is harmless.
func simpleComm(st ast.Stmt) bool {
	ok := true
	ast.Inspect(st, func(n ast.Node) bool {
		switch v := n.(type) {
		case *ast.CallExpr:
			se, isSel := v.Fun.(*ast.SelectorExpr)
			if !isSel || se.Sel.Name != "Done" || len(v.Args) != 0 {
				ok = false
			}
		case *ast.FuncLit, *ast.CompositeLit, *ast.IndexExpr, *ast.SliceExpr, *ast.TypeAssertExpr:
			ok = false
		}
		return ok
	})
	return ok
}

func hasLabel(body []ast.Stmt) bool {
	found := false
	for _, s := range body {
		ast.Inspect(s, func(n ast.Node) bool {
			if _, ok := n.(*ast.LabeledStmt); ok {
				found = true
			}
			return !found
		})
	}
	return found
}

// allReturn: every clause of the select ends in a return or a panic, i.e. the select
// is a terminating statement.
func allReturn(sel *ast.SelectStmt) bool {
	for _, c := range sel.Body.List {
		body := c.(*ast.CommClause).Body
		if len(body) == 0 {
			return false
		}
		switch v := body[len(body)-1].(type) {
		case *ast.ReturnStmt:
		case *ast.ExprStmt:
			call, ok := v.X.(*ast.CallExpr)
			if !ok {
				return false
			}
			if id, ok := call.Fun.(*ast.Ident); !ok || id.Name != "panic" {
				return false
			}
		default:
			return false
		}
	}
	return true
}

// hasBareContinue reports an unlabeled continue that targets a loop around the select
// (the rewrite wraps the clauses in a loop of its own).
func hasBareContinue(body []ast.Stmt) bool {
	found := false
	for _, s := range body {
		ast.Inspect(s, func(n ast.Node) bool {
			switch v := n.(type) {
			case *ast.ForStmt, *ast.RangeStmt, *ast.FuncLit:
				return false
			case *ast.BranchStmt:
				if v.Tok == token.CONTINUE && v.Label == nil {
					found = true
				}
			}
			return true
		})
	}
	return found
}
