module veriforch

go 1.26
