#!/bin/sh
# usage: seed_eval.sh <patch> <prop> [more props...]  -- applies a seeded patch to /repo, runs quick checks, undoes it.
patch=$1; shift
cd /repo && git apply "$patch" || { echo "PATCH DOES NOT APPLY to /repo"; exit 2; }
cd /verif
for p in "$@"; do
  VERIF_BRIEF=1 ${SEED_ENV} bin/verif check $p --tier ${SEED_TIER:-quick} 2>&1 | cut -c1-260 | grep -v "^VIOLATION" | tail -8
done
cd /repo && git checkout -- internal workflow plugins coercion.go 2>/dev/null; git -C /repo status --short | grep -v reporter | head -3
