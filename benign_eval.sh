#!/bin/sh
# usage: benign_eval.sh <patch> [props...]  -- applies a property-preserving change to /repo, runs the
# quick checks (all 15 by default) and prints every alarm; undoes the change afterwards.
patch=$1; shift
props="$@"; [ -z "$props" ] && props="C01 C02 C03 C04 C05 C06 C07 C08 C09 C10 C11 C12 C13 C14 C15"
cd /repo && git apply "$patch" || { echo "PATCH DOES NOT APPLY to /repo"; exit 2; }
cd /verif
for p in $props; do
  VERIF_BRIEF=1 VERIF_NO_EVIDENCE=1 VERIF_REPLAY_DIR=/tmp/rp_benign VERIF_WALL_MS=${BENIGN_WALL_MS:-15000} bin/verif check $p --tier quick 2>&1 | cut -c1-260 | grep -v "^VIOLATION" | grep "class:\|HARNESS\|FIDELITY\|NONDET\| quick: " | tail -8
done
cd /repo && git checkout -- internal workflow plugins coercion.go 2>/dev/null; git -C /repo status --short | grep -v reporter | head -3
