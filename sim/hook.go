package sim

import "github.com/element-of-surprise/coercion/verifhook"

// SetDetselHook installs the clause-order function used by the selects that the
// detsel overlay rewrote (see /verif/orch/detsel). The verifhook package exists
// only in the build overlay, so this module builds only with -overlay.
func SetDetselHook(f func(int) []int) { verifhook.SetPerm(f) }
