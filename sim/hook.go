package sim

import "github.com/element-of-surprise/coercion/verifhook"

// SetDetselHook installs the clause-order function used by the selects that the
// detsel overlay rewrote (see /verif/orch/detsel). The verifhook package exists
// only in the build overlay, so this module builds only with -overlay.
func SetDetselHook(f func(int) []int) { verifhook.SetPerm(f) }

// SetYieldHook installs the function called at the scheduling points the overlay
// inserts before accesses to shared in-memory state of the engine (mutexes,
// concurrent maps, atomics in internal/execute).
func SetYieldHook(f func(string)) { verifhook.SetYield(f) }

// SetYieldCtxHook installs the function called at the scheduling points that have a
// context in scope (the simulator reads the incarnation of the caller from it).
func SetYieldCtxHook(f func(ctx interface{ Value(any) any }, where string)) {
	if f == nil {
		verifhook.SetYieldCtx(nil)
		return
	}
	verifhook.SetYieldCtx(func(c verifhook.Valuer, where string) { f(c, where) })
}
