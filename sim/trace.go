package sim

import (
	"fmt"
	"sort"
	"strings"
)

// Inv is one plugin invocation reconstructed from the event log.
type Inv struct {
	Path     string
	Obj      *Obj
	K        int // invocation index of this action over the whole run
	Gen      int
	EnterSeq int
	ExitSeq  int // -1: never returned (crash, hang, end of run)
	EnterT   int64
	ExitT    int64
	Deadline int64 // 0 = none
	Outcome  string
	CtxDone  bool // at exit the context was already cancelled
	// Enter2/End2 are positions on a doubled scale: event s is at 2s, "just before
	// event s" at 2s-1. An invocation ends at its exit event, at the instant its
	// context deadline passed, or when its process died, whichever is first.
	Enter2 int
	End2   int
	EndT   int64
	Ended  bool // has an end (exit, timeout or crash)
	Run    int  // run index of the action this invocation belongs to
}

// Succeeded: the invocation returned in time a response of the declared type.
func (i *Inv) Succeeded() bool {
	return i.ExitSeq >= 0 && i.Outcome == OK && !i.CtxDone
}

// Final: the engine must not retry after this invocation.
func (i *Inv) PermanentFail() bool {
	return i.ExitSeq >= 0 && !i.CtxDone && (i.Outcome == Permanent || i.Outcome == WrongType)
}

// Failed: the invocation ended without success.
func (i *Inv) FailedInv() bool { return i.Ended && !i.Succeeded() }

// WriteRec is one applied storage write.
type WriteRec struct {
	Seq int
	// AckSeq: event at which the engine got the answer of this write: Seq itself when
	// writes take no simulated time, 1<<60 when the answer was never delivered.
	AckSeq int
	T      int64
	Gen    int
	Path   string
	Op     string
	St     ObjState
}

// APIRec is one API call with its return.
type APIRec struct {
	Client  int
	Op      string
	Plan    int
	Gen     int
	CallSeq int
	RetSeq  int // -1: never returned
	CallT   int64
	RetT    int64
	Err     string
	Snap    *PlanSnap
	Note    string
	Panic   string
}

// Trace is the event log indexed for the oracles.
type Trace struct {
	Res     *RunResult
	Events  []Event
	Layouts []*Layout
	Invs    []*Inv
	ByPath  map[string][]*Inv
	Writes  []*WriteRec
	WByPath map[string][]*WriteRec
	APIs    []*APIRec
	Status  []*APIRec          // status yields: each is an observation (Snap) at RetSeq
	Direct  map[string][]Event // direct reads by note (D0, D1, D2, crash, hang)
	Crashes []int              // seq of crash events
	Parks   map[string][]int   // label -> seqs of park events announcing it
	Panics  []Event
	EndSeq  int
}

func (t *Trace) Obj(path string) *Obj {
	pi := PlanOfPath(path)
	if pi < 0 || pi >= len(t.Layouts) {
		return nil
	}
	return t.Layouts[pi].ByPath[path]
}

// firstAtOrAfter returns the index of the first event with T >= ts (len if none).
func (t *Trace) firstAtOrAfter(ts int64) int {
	return sort.Search(len(t.Events), func(i int) bool { return t.Events[i].T >= ts })
}

func BuildTrace(res *RunResult) *Trace {
	t := &Trace{Res: res, Events: res.Events, Layouts: res.Layouts, ByPath: map[string][]*Inv{}, WByPath: map[string][]*WriteRec{},
		Direct: map[string][]Event{}, Parks: map[string][]int{}}
	if t.Layouts == nil {
		for i := range res.Spec.Plans {
			t.Layouts = append(t.Layouts, NewLayout(i, &res.Spec.Plans[i]))
		}
		res.Layouts = t.Layouts
	}
	open := map[string]*Inv{} // path#k#gen
	bySeq := map[int]*WriteRec{}
	pending := map[string]*APIRec{}
	t.EndSeq = len(t.Events)
	for _, e := range t.Events {
		switch e.Kind {
		case EvPlugEnter:
			in := &Inv{Path: e.Obj, Obj: t.Obj(e.Obj), K: e.Inv, Gen: e.Gen, EnterSeq: e.Seq, ExitSeq: -1, EnterT: e.T, Deadline: e.Deadline, Outcome: e.Outcome, Enter2: 2 * e.Seq}
			t.Invs = append(t.Invs, in)
			t.ByPath[e.Obj] = append(t.ByPath[e.Obj], in)
			open[fmt.Sprintf("%s#%d", e.Obj, e.Inv)] = in
		case EvPlugExit:
			if in := open[fmt.Sprintf("%s#%d", e.Obj, e.Inv)]; in != nil {
				in.ExitSeq, in.ExitT, in.CtxDone = e.Seq, e.T, e.CtxDone
			}
		case EvWrite:
			if e.W != nil {
				w := &WriteRec{Seq: e.Seq, AckSeq: e.Seq, T: e.T, Gen: e.Gen, Path: e.Obj, Op: e.Op, St: *e.W}
				if t.Res.Spec.Policy.WriteLatUs > 0 {
					w.AckSeq = 1 << 60
				}
				bySeq[e.Seq] = w
				t.Writes = append(t.Writes, w)
				t.WByPath[e.Obj] = append(t.WByPath[e.Obj], w)
			}
		case EvWriteAck:
			if w := bySeq[e.Ref]; w != nil {
				w.AckSeq = e.Seq
			}
		case EvAPICall:
			a := &APIRec{Client: e.Client, Op: e.Op, Plan: PlanOfPath(e.Obj), Gen: e.Gen, CallSeq: e.Seq, RetSeq: -1, CallT: e.T}
			t.APIs = append(t.APIs, a)
			pending[fmt.Sprintf("%d/%d", e.Gen, e.Client)] = a
		case EvAPIRet:
			if e.Op == "status" {
				t.Status = append(t.Status, &APIRec{Client: e.Client, Op: e.Op, Plan: PlanOfPath(e.Obj), Gen: e.Gen, CallSeq: e.Seq, RetSeq: e.Seq, RetT: e.T, Err: e.Err, Snap: e.Plan})
				continue
			}
			if a := pending[fmt.Sprintf("%d/%d", e.Gen, e.Client)]; a != nil && a.RetSeq < 0 {
				a.RetSeq, a.RetT, a.Err, a.Snap, a.Note = e.Seq, e.T, e.Err, e.Plan, e.Note
			}
		case EvPanic:
			t.Panics = append(t.Panics, e)
			if a := pending[fmt.Sprintf("%d/%d", e.Gen, e.Client)]; a != nil && a.RetSeq < 0 && e.Op != "New" {
				a.Panic = e.Note
			}
		case EvDirect:
			t.Direct[e.Note] = append(t.Direct[e.Note], e)
		case EvCrash:
			t.Crashes = append(t.Crashes, e.Seq)
		case EvPark:
			for _, l := range e.Labels {
				t.Parks[l] = append(t.Parks[l], e.Seq)
			}
		case EvEnd:
			t.EndSeq = e.Seq
		}
	}
	// ends
	crashOfGen := map[int]int{}
	for _, cs := range t.Crashes {
		crashOfGen[t.Events[cs].Gen] = cs
	}
	for _, in := range t.Invs {
		in.End2 = 2*len(t.Events) + 2
		in.EndT = -1
		if in.ExitSeq >= 0 {
			in.End2, in.EndT, in.Ended = 2*in.ExitSeq, in.ExitT, true
		}
		if in.Deadline > 0 {
			// the deadline instant was reached during the run
			if fs := t.firstAtOrAfter(in.Deadline); fs < len(t.Events) {
				if d2 := 2*fs - 1; d2 < in.End2 {
					in.End2, in.EndT, in.Ended = d2, in.Deadline, true
				}
			}
		}
		if cs, ok := crashOfGen[in.Gen]; ok && 2*cs < in.End2 {
			in.End2, in.EndT, in.Ended = 2*cs, t.Events[cs].T, true
		}
	}
	// runs: a run of an action starts at each applied write "Running with no attempts"
	for path, invs := range t.ByPath {
		var starts []int
		for _, w := range t.WByPath[path] {
			if w.St.Status == StRunning && len(w.St.Attempts) == 0 {
				starts = append(starts, w.Seq)
			}
		}
		for _, in := range invs {
			r := sort.SearchInts(starts, in.EnterSeq) // number of starts before the enter
			in.Run = r
		}
	}
	return t
}

// InvsOf returns the invocations of path, optionally of one generation (gen<0: all).
func (t *Trace) InvsOf(path string, gen int) []*Inv {
	if gen < 0 {
		return t.ByPath[path]
	}
	var out []*Inv
	for _, in := range t.ByPath[path] {
		if in.Gen == gen {
			out = append(out, in)
		}
	}
	return out
}

// LastRun returns the invocations of the last run of path.
func (t *Trace) LastRun(path string) []*Inv {
	invs := t.ByPath[path]
	if len(invs) == 0 {
		return nil
	}
	r := invs[len(invs)-1].Run
	var out []*Inv
	for _, in := range invs {
		if in.Run == r {
			out = append(out, in)
		}
	}
	return out
}

// Runs groups the invocations of path by run.
func (t *Trace) Runs(path string) [][]*Inv {
	var out [][]*Inv
	cur := -1
	for _, in := range t.ByPath[path] {
		if in.Run != cur {
			out = append(out, nil)
			cur = in.Run
		}
		out[len(out)-1] = append(out[len(out)-1], in)
	}
	return out
}

// runOK: the run's final invocation succeeded.
func runOK(run []*Inv) bool { return len(run) > 0 && run[len(run)-1].Succeeded() }

// FinalSnap returns the last direct read of plan i (D2, else D1, else hang).
func (t *Trace) FinalSnap(i int) *PlanSnap {
	obj := fmt.Sprintf("p%d", i)
	for _, note := range []string{"D2", "D1", "hang", "D0"} {
		evs := t.Direct[note]
		for k := len(evs) - 1; k >= 0; k-- {
			if evs[k].Obj == obj {
				return evs[k].Plan
			}
		}
	}
	return nil
}

// groupPath builds "scope/group".
func groupPath(scope, group string) string { return scope + "/" + group }

// ActionsUnder returns the action objects whose path is below prefix.
func (l *Layout) ActionsUnder(prefix string) []*Obj {
	var out []*Obj
	for _, o := range l.Objs {
		if o.Kind == KAction && strings.HasPrefix(o.Path, prefix+"/") {
			out = append(out, o)
		}
	}
	return out
}

// SeqActionsOfScope returns the sequence actions of a block ("p0/b1") or of the
// whole plan ("p0").
func (l *Layout) SeqActionsOfScope(scope string) []*Obj {
	var out []*Obj
	for _, o := range l.Objs {
		if o.IsSeqAction() && (o.Scope() == scope || scope == fmt.Sprintf("p%d", l.Plan)) {
			out = append(out, o)
		}
	}
	return out
}

// GroupActions returns the actions of check group `group` of scope.
func (l *Layout) GroupActions(scope, group string) []*Obj {
	var out []*Obj
	gp := groupPath(scope, group)
	for _, o := range l.Objs {
		if o.Kind == KAction && o.Parent == gp {
			out = append(out, o)
		}
	}
	return out
}

func (l *Layout) HasGroup(scope, group string) bool {
	_, ok := l.ByPath[groupPath(scope, group)]
	return ok
}

// Scopes returns the plan path followed by its block paths.
func (l *Layout) Scopes() []string {
	out := []string{fmt.Sprintf("p%d", l.Plan)}
	for bi := range l.Spec.Blocks {
		out = append(out, fmt.Sprintf("p%d/b%d", l.Plan, bi))
	}
	return out
}
