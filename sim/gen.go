package sim

import (
	"fmt"
	"os"
)

// Workload generation for the exec (E1) and crash (E2) engines. Everything is
// drawn from one Rng derived from the run seed; profile (a property id) only
// biases the distribution, it never changes what the oracles demand.

type genCtx struct {
	r       *Rng
	profile string
	size    int // 0 small, 1 medium, 2 large
	pCheck  float64
	class   int
	consts  bool // constant scripts only (outcome a function of the action alone)
}

var okLats = []int64{137, 1137, 1137, 2137, 3137, 5137}

func (g *genCtx) okOutcome() Outcome { return Outcome{Kind: OK, LatMs: Pick(g.r, okLats)} }

func (g *genCtx) action(check bool) ActionSpec {
	r := g.r
	a := ActionSpec{
		Ptr:     r.Bool(0.3),
		Timeout: Pick(r, []int{0, 0, 5, 11, 60}),
		Retries: Pick(r, []int{0, 0, 0, 1, 2, 5}),
	}
	a.Default = g.okOutcome()
	if a.Timeout == 5 && a.Default.LatMs > 4000 {
		a.Default.LatMs = 3137
	}
	return a
}

func (g *genCtx) checks(cont bool) *ChecksSpec {
	r := g.r
	n := 1
	if r.Bool(0.3) {
		n = 2
	}
	if g.size == 2 && r.Bool(0.3) {
		n = 3
	}
	c := &ChecksSpec{}
	for i := 0; i < n; i++ {
		c.Actions = append(c.Actions, g.action(true))
	}
	if cont {
		c.DelayMs = Pick(r, []int64{1000, 3000, 3000, 7000, 30000})
		if r.Bool(0.05) {
			c.DelayMs = 0 // engine turns this into a 1 ns ticker: back-to-back runs
			for i := range c.Actions {
				if c.Actions[i].Default.LatMs < 1000 {
					c.Actions[i].Default.LatMs = 1137
				}
			}
		}
	}
	return c
}

func (g *genCtx) maybeChecks(cont bool, p float64) *ChecksSpec {
	if g.r.Bool(p) {
		return g.checks(cont)
	}
	return nil
}

func (g *genCtx) block() BlockSpec {
	r := g.r
	maxS := []int{3, 4, 6}[g.size]
	maxA := []int{2, 3, 4}[g.size]
	ns := 1 + r.Intn(maxS)
	b := BlockSpec{}
	for s := 0; s < ns; s++ {
		na := 1 + r.Intn(maxA)
		sq := SeqSpec{}
		for a := 0; a < na; a++ {
			sq.Actions = append(sq.Actions, g.action(false))
		}
		b.Seqs = append(b.Seqs, sq)
	}
	b.Concurrency = Pick(r, []int{0, 1, 1, 2, 3, ns - 1, ns, ns + 2})
	if b.Concurrency < 0 {
		b.Concurrency = 0
	}
	b.Tolerated = Pick(r, []int{-1, 0, 0, 0, 1, 2, ns})
	if r.Bool(0.15) {
		b.EntranceMs = Pick(r, []int64{2000, 45000})
	}
	if r.Bool(0.15) {
		b.ExitMs = Pick(r, []int64{2000, 45000})
	}
	pb := g.pCheck * 0.4
	b.Bypass = g.maybeChecks(false, pb)
	b.Pre = g.maybeChecks(false, g.pCheck)
	b.Cont = g.maybeChecks(true, g.pCheck)
	b.Post = g.maybeChecks(false, g.pCheck)
	b.Deferred = g.maybeChecks(false, g.pCheck)
	return b
}

func (g *genCtx) plan() PlanSpec {
	r := g.r
	maxB := []int{2, 3, 4}[g.size]
	nb := 1 + r.Intn(maxB)
	p := PlanSpec{Group: r.Intn(3)}
	for i := 0; i < nb; i++ {
		p.Blocks = append(p.Blocks, g.block())
	}
	pb := g.pCheck * 0.3
	p.Bypass = g.maybeChecks(false, pb)
	p.Pre = g.maybeChecks(false, g.pCheck)
	p.Cont = g.maybeChecks(true, g.pCheck)
	p.Post = g.maybeChecks(false, g.pCheck)
	p.Deferred = g.maybeChecks(false, g.pCheck)
	return p
}

// failScript returns a script that makes the action's first run fail for good.
func (g *genCtx) failScript(a *ActionSpec) {
	r := g.r
	if g.consts {
		a.Script = nil
		a.Default = Outcome{Kind: Permanent, LatMs: Pick(r, okLats)}
		return
	}
	switch r.Intn(4) {
	case 0: // permanent at attempt j <= retries
		j := r.Intn(a.Retries + 1)
		a.Script = nil
		for i := 0; i < j; i++ {
			a.Script = append(a.Script, Outcome{Kind: Transient, LatMs: Pick(r, okLats)})
		}
		a.Script = append(a.Script, Outcome{Kind: Permanent, LatMs: Pick(r, okLats)})
	case 1: // transient beyond the retry budget
		a.Script = nil
		for i := 0; i <= a.Retries; i++ {
			a.Script = append(a.Script, Outcome{Kind: Transient, LatMs: Pick(r, okLats)})
		}
	case 2: // wrong response type
		a.Script = []Outcome{{Kind: WrongType, LatMs: Pick(r, okLats)}}
	default: // overrun on every attempt
		a.Script = nil
		for i := 0; i <= a.Retries; i++ {
			a.Script = append(a.Script, g.overrun(a))
		}
	}
}

func (g *genCtx) overrun(a *ActionSpec) Outcome {
	to := int64(a.EffTimeout() / 1e6)
	k := Overrun
	if g.r.Bool(0.4) {
		k = OverrunIg
	}
	return Outcome{Kind: k, LatMs: to + 1137}
}

// flakyScript: fails a few times, then succeeds within the budget.
func (g *genCtx) flakyScript(a *ActionSpec) {
	r := g.r
	if a.Retries == 0 {
		a.Retries = 1 + r.Intn(2)
	}
	j := 1 + r.Intn(a.Retries)
	a.Script = nil
	for i := 0; i < j; i++ {
		if r.Bool(0.3) {
			a.Script = append(a.Script, g.overrun(a))
		} else {
			a.Script = append(a.Script, Outcome{Kind: Transient, LatMs: Pick(r, okLats)})
		}
	}
	a.Script = append(a.Script, g.okOutcome())
}

// failAtRun makes the check action fail (for good) at its k-th run (1-based).
func (g *genCtx) failAtRun(a *ActionSpec, k int) {
	if g.consts {
		a.Script = nil
		a.Default = Outcome{Kind: Permanent, LatMs: Pick(g.r, okLats)}
		return
	}
	a.Retries = 0
	a.Script = nil
	for i := 1; i < k; i++ {
		a.Script = append(a.Script, g.okOutcome())
	}
	a.Script = append(a.Script, Outcome{Kind: Permanent, LatMs: Pick(g.r, okLats)})
}

type actRef struct {
	a     *ActionSpec
	check bool
	cont  bool
	group string
}

func collectActions(p *PlanSpec) (seqActs []actRef, checkActs []actRef) {
	addC := func(c *ChecksSpec, group string) {
		if c == nil {
			return
		}
		for i := range c.Actions {
			checkActs = append(checkActs, actRef{a: &c.Actions[i], check: true, cont: group == "cont", group: group})
		}
	}
	for gi, c := range planChecks(p) {
		addC(c, groupNames[gi])
	}
	for bi := range p.Blocks {
		b := &p.Blocks[bi]
		for gi, c := range blockChecks(b) {
			addC(c, groupNames[gi])
		}
		for si := range b.Seqs {
			for ai := range b.Seqs[si].Actions {
				seqActs = append(seqActs, actRef{a: &b.Seqs[si].Actions[ai]})
			}
		}
	}
	return
}

// Script classes.
const (
	clsAllOK = iota
	clsOneSeqFail
	clsManySeqFail
	clsCheckFail
	clsContFailAtK
	clsFlaky
	clsTimeouts
	clsMix
	clsBypassOK
	clsLongSeqCont
	numClasses
)

func (g *genCtx) applyScripts(p *PlanSpec) {
	r := g.r
	seqActs, checkActs := collectActions(p)
	// bypass checks: by default they fail (so that the scope runs); class
	// clsBypassOK and a coin make them pass.
	for _, c := range checkActs {
		if c.group == "bypass" {
			if g.class == clsBypassOK || r.Bool(0.3) {
				continue
			}
			g.failScript(c.a)
		}
	}
	nonBypass := func() []actRef {
		var out []actRef
		for _, c := range checkActs {
			if c.group != "bypass" {
				out = append(out, c)
			}
		}
		return out
	}
	switch g.class {
	case clsAllOK, clsBypassOK:
	case clsOneSeqFail:
		g.failScript(Pick(r, seqActs).a)
	case clsManySeqFail:
		for bi := range p.Blocks {
			b := &p.Blocks[bi]
			for si := range b.Seqs {
				if r.Bool(0.45) {
					acts := b.Seqs[si].Actions
					g.failScript(&acts[r.Intn(len(acts))])
				}
			}
		}
	case clsCheckFail:
		if cs := nonBypass(); len(cs) > 0 {
			c := Pick(r, cs)
			if c.cont {
				g.failAtRun(c.a, 1+r.Intn(4))
			} else {
				g.failScript(c.a)
			}
		} else {
			g.failScript(Pick(r, seqActs).a)
		}
	case clsContFailAtK:
		var conts []actRef
		for _, c := range checkActs {
			if c.cont {
				conts = append(conts, c)
			}
		}
		if len(conts) > 0 {
			g.failAtRun(Pick(r, conts).a, 1+r.Intn(6))
		}
	case clsFlaky:
		all := append(append([]actRef{}, seqActs...), nonBypass()...)
		for i := 0; i < 1+r.Intn(3); i++ {
			g.flakyScript(Pick(r, all).a)
		}
	case clsTimeouts:
		all := append(append([]actRef{}, seqActs...), nonBypass()...)
		for i := 0; i < 1+r.Intn(2); i++ {
			a := Pick(r, all).a
			if r.Bool(0.5) {
				g.flakyScript(a)
				a.Script[0] = g.overrun(a)
			} else {
				a.Script = nil
				for j := 0; j <= a.Retries; j++ {
					a.Script = append(a.Script, g.overrun(a))
				}
			}
		}
	case clsMix:
		all := append(append([]actRef{}, seqActs...), nonBypass()...)
		for _, c := range all {
			if r.Bool(0.2) {
				switch r.Intn(3) {
				case 0:
					if c.cont {
						g.failAtRun(c.a, 1+r.Intn(5))
					} else {
						g.failScript(c.a)
					}
				default:
					g.flakyScript(c.a)
				}
			}
		}
	case clsLongSeqCont:
		// one long-running sequence action so that continuous checks run many times
		a := Pick(r, seqActs).a
		a.Timeout = 60
		a.Script = nil
		a.Default = Outcome{Kind: OK, LatMs: Pick(r, []int64{20137, 40137, 55137})}
		var conts []actRef
		for _, c := range checkActs {
			if c.cont {
				conts = append(conts, c)
			}
		}
		if len(conts) > 0 && r.Bool(0.7) {
			g.failAtRun(Pick(r, conts).a, 2+r.Intn(6))
		}
	}
	defer clampLatencies(p)
	if g.consts {
		// constant scripts: drop everything that depends on the invocation number
		for _, c := range append(seqActs, checkActs...) {
			if len(c.a.Script) > 0 {
				last := c.a.Script[len(c.a.Script)-1]
				c.a.Script = nil
				if last.Kind == OK {
					c.a.Default = last
				} else {
					c.a.Default = Outcome{Kind: Permanent, LatMs: Pick(r, okLats)}
				}
			}
		}
	}
}

// widen makes one dimension of the plan large (11-13 entries): many SQL and
// ordering mistakes only show beyond single-digit positions.
func (g *genCtx) widen(p *PlanSpec) {
	r := g.r
	n := 11 + r.Intn(3)
	quick := func() ActionSpec {
		a := g.action(false)
		a.Default = Outcome{Kind: OK, LatMs: 137}
		a.Retries = 0
		return a
	}
	b := &p.Blocks[r.Intn(len(p.Blocks))]
	switch r.Intn(4) {
	case 0: // actions of a sequence
		sq := &b.Seqs[r.Intn(len(b.Seqs))]
		for len(sq.Actions) < n {
			sq.Actions = append(sq.Actions, quick())
		}
	case 1: // actions of a check group
		c := b.Pre
		if r.Bool(0.5) || c == nil {
			if p.Post == nil {
				p.Post = &ChecksSpec{}
			}
			c = p.Post
		}
		for len(c.Actions) < n {
			a := quick()
			c.Actions = append(c.Actions, a)
		}
	case 2: // sequences of a block
		for len(b.Seqs) < n {
			b.Seqs = append(b.Seqs, SeqSpec{Actions: []ActionSpec{quick()}})
		}
	default: // blocks of a plan
		for len(p.Blocks) < n {
			p.Blocks = append(p.Blocks, BlockSpec{Seqs: []SeqSpec{{Actions: []ActionSpec{quick()}}}, Concurrency: 1})
		}
	}
}

// clampLatencies makes sure that every scripted outcome other than an overrun
// returns before the action's timeout, so that the outcome the script names is
// the outcome the engine sees.
func clampLatencies(p *PlanSpec) {
	seqActs, checkActs := collectActions(p)
	for _, c := range append(seqActs, checkActs...) {
		to := int64(c.a.EffTimeout() / 1e6)
		fix := func(o *Outcome) {
			if o.Kind == Overrun || o.Kind == OverrunIg {
				return
			}
			if o.LatMs >= to-1000 {
				o.LatMs = 3137
				if to <= 5000 {
					o.LatMs = 2137
				}
			}
		}
		for i := range c.a.Script {
			fix(&c.a.Script[i])
		}
		fix(&c.a.Default)
	}
}

func (g *genCtx) policy() PolicySpec {
	r := g.r
	p := PolicySpec{}
	switch x := r.Intn(100); {
	case x < 40:
		p.Kind = "random"
	case x < 55:
		p.Kind, p.P = "first", 0.1
	case x < 70:
		p.Kind, p.P = "last", 0.1
	default: // "prio" (World.prioPick) is implemented but not generated: measured no better than these
		p.Kind = "starve"
		p.Starve = Pick(r, []string{"w: ", "pe: ", "px: ", "/cont", "r: ", "api: ", "/s0", "UpdateSequence", "UpdatePlan", "y: ", "y: ", "wa: "})
	}
	if k := os.Getenv("SIM_FORCE_POLICY"); k != "" { // development only: compare policies on one tree
		p = PolicySpec{Kind: k, P: 0.1, Changes: r.Intn(4), Starve: "y: "}
	}
	switch x := r.Intn(10); {
	case x < 6:
	case x < 8:
		p.DelayP = 0.02
	default:
		p.DelayP = 0.1
	}
	// half of the runs keep consecutive engine steps at one simulated instant (ties
	// between timestamps), the others give every durable write a duration
	p.WriteLatUs = Pick(r, []int64{0, 0, 0, 0, 0, 1, 1, 250, 250, 3000})
	p.Yields = r.Bool(0.5)
	if g.profile == "C12" {
		p.Yields = r.Bool(0.8)
		p.ReplyP = Pick(r, []float64{0, 0.2, 0.5})
	} else if r.Bool(0.1) {
		p.ReplyP = 0.1
	}
	return p
}

func maxGrace(plans []PlanSpec) int64 {
	var maxDelay, maxTO int64 = 0, 30000
	for pi := range plans {
		_, checkActs := collectActions(&plans[pi])
		seqActs, _ := collectActions(&plans[pi])
		for _, a := range append(seqActs, checkActs...) {
			if to := int64(a.a.EffTimeout() / 1e6); to > maxTO {
				maxTO = to
			}
		}
		visit := func(c *ChecksSpec) {
			if c != nil && c.DelayMs > maxDelay {
				maxDelay = c.DelayMs
			}
		}
		visit(plans[pi].Cont)
		for bi := range plans[pi].Blocks {
			visit(plans[pi].Blocks[bi].Cont)
		}
	}
	return 2*maxDelay + 2*maxTO + 20000
}

// classFor picks the script class: the first runs of a batch are stratified so
// that no class a property depends on is missed by bad luck.
func classFor(profile string, runIdx int, r *Rng) int {
	var pref []int
	switch profile {
	case "C01":
		pref = []int{clsAllOK, clsOneSeqFail, clsCheckFail, clsFlaky, clsMix, clsManySeqFail}
	case "C02":
		pref = []int{clsAllOK, clsAllOK, clsOneSeqFail, clsFlaky, clsManySeqFail}
	case "C03":
		pref = []int{clsManySeqFail, clsManySeqFail, clsOneSeqFail, clsMix, clsContFailAtK}
	case "C04":
		pref = []int{clsOneSeqFail, clsCheckFail, clsContFailAtK, clsManySeqFail, clsMix, clsAllOK, clsLongSeqCont, clsBypassOK}
	case "C05":
		pref = []int{clsFlaky, clsTimeouts, clsMix, clsOneSeqFail, clsCheckFail}
	case "C06":
		pref = []int{clsBypassOK, clsCheckFail, clsContFailAtK, clsAllOK, clsMix}
	case "C07":
		pref = []int{clsContFailAtK, clsLongSeqCont, clsCheckFail, clsManySeqFail, clsLongSeqCont}
	case "C08":
		pref = []int{clsFlaky, clsAllOK, clsOneSeqFail, clsMix, clsTimeouts}
	case "C12":
		pref = []int{clsAllOK, clsOneSeqFail, clsCheckFail}
	default:
		pref = []int{clsAllOK, clsOneSeqFail, clsManySeqFail, clsCheckFail, clsContFailAtK, clsFlaky, clsTimeouts, clsMix, clsBypassOK, clsLongSeqCont}
	}
	if runIdx < 4*len(pref) {
		return pref[runIdx%len(pref)]
	}
	if r.Bool(0.7) {
		return Pick(r, pref)
	}
	return r.Intn(numClasses)
}

// GenExec generates one E1 world.
func GenExec(seed uint64, profile string, runIdx int) *RunSpec {
	r := NewRng(seed).Sub("gen")
	g := &genCtx{r: r, profile: profile}
	switch x := r.Intn(10); {
	case x < 6:
		g.size = 0
	case x < 9:
		g.size = 1
	default:
		g.size = 2
	}
	g.pCheck = Pick(r, []float64{0, 0.2, 0.5, 0.8})
	switch profile {
	case "C06", "C07":
		g.pCheck = Pick(r, []float64{0.3, 0.5, 0.8, 0.9})
	case "C04":
		g.pCheck = Pick(r, []float64{0.2, 0.5, 0.8})
	}
	g.class = classFor(profile, runIdx, r)
	// a quarter of the runs use constant outcome scripts: their verdicts are decided by the
	// reference model (C03.r4/r5)
	g.consts = r.Bool(0.25)
	if profile == "C03" || profile == "C06" {
		g.consts = r.Bool(0.45)
	}

	spec := &RunSpec{Engine: "exec", Seed: seed, SchedSeed: Mix(seed, 0x5c4ed), Profile: profile, Consts: g.consts}
	np := 1
	switch x := r.Intn(10); {
	case x < 7:
	case x < 9:
		np = 2
	default:
		np = 3
	}
	if profile == "C02" || profile == "C04" || profile == "C12" {
		if r.Bool(0.4) {
			np = 1 + r.Intn(3)
		}
	}
	edge := false
	for i := 0; i < np; i++ {
		p := g.plan()
		if (g.class == clsContFailAtK || g.class == clsLongSeqCont) && p.Cont == nil && p.Blocks[0].Cont == nil {
			if r.Bool(0.5) {
				p.Cont = g.checks(true)
			} else {
				p.Blocks[r.Intn(len(p.Blocks))].Cont = g.checks(true)
			}
		}
		if g.class == clsBypassOK && p.Bypass == nil && r.Bool(0.5) {
			p.Bypass = g.checks(false)
		} else if g.class == clsBypassOK && p.Blocks[0].Bypass == nil {
			p.Blocks[r.Intn(len(p.Blocks))].Bypass = g.checks(false)
		}
		if r.Bool(0.04) {
			g.widen(&p)
		}
		g.applyScripts(&p)
		if profile == "C07" && !g.consts && r.Bool(0.12) {
			// Edge shaping: the k-th run of block 0's continuous check fails at the very instant
			// the block's only sequence ends, so that the hand-over of the failure races with
			// BlockEnd's cancel-and-drain (the order is then the scheduler's).
			edge = true
			b := &p.Blocks[0]
			b.Bypass, b.Pre, b.Post, b.Deferred = nil, nil, nil, nil
			b.EntranceMs = 0
			c, d, k := Pick(r, []int64{137, 1137}), Pick(r, []int64{1000, 3000}), 2+r.Intn(3)
			chk := ActionSpec{Timeout: 60, Default: Outcome{Kind: OK, LatMs: c}}
			for i := 1; i < k; i++ {
				chk.Script = append(chk.Script, Outcome{Kind: OK, LatMs: c})
			}
			chk.Script = append(chk.Script, Outcome{Kind: Permanent, LatMs: c})
			b.Cont = &ChecksSpec{DelayMs: d, Actions: []ActionSpec{chk}}
			b.Seqs = []SeqSpec{{Actions: []ActionSpec{{Timeout: 60, Default: Outcome{Kind: OK, LatMs: int64(k-1) * (d + c)}}}}}
			b.Concurrency, b.Tolerated = 1, 0
			p.Bypass, p.Pre = nil, nil
		}
		spec.Plans = append(spec.Plans, p)
	}
	spec.Policy = g.policy()
	if g.consts {
		spec.Policy.DelayP, spec.Policy.ReplyP = 0, 0
	}
	if edge {
		spec.Policy.DelayP, spec.Policy.ReplyP, spec.Policy.WriteLatUs = 0, 0, 0
		spec.Policy.Yields = true
		if r.Bool(0.5) {
			spec.Policy.Kind, spec.Policy.Starve = "starve", "y: " // engine-internal steps held back as long as possible
		}
	}
	spec.GraceMs = maxGrace(spec.Plans)
	spec.Clients = g.clients(spec, profile)
	return spec
}

func (g *genCtx) clients(spec *RunSpec, profile string) [][]ClientOp {
	r := g.r
	var cl [][]ClientOp
	for i := range spec.Plans {
		cl = append(cl, []ClientOp{{Op: "submit", Plan: i}, {Op: "start", Plan: i}, {Op: "wait", Plan: i}})
	}
	// pollers
	if r.Bool(0.3) || profile == "C08" && r.Bool(0.6) {
		pi := r.Intn(len(spec.Plans))
		cl = append(cl, []ClientOp{{Op: "status", Plan: pi, Ms: Pick(r, []int64{700, 1300, 2900})}})
	}
	if r.Bool(0.15) {
		pi := r.Intn(len(spec.Plans))
		cl = append(cl, []ClientOp{{Op: "sleep", Ms: Pick(r, []int64{500, 2500})}, {Op: "plan", Plan: pi}, {Op: "sleep", Ms: 3300}, {Op: "plan", Plan: pi}, {Op: "wait", Plan: pi}})
	}
	// calls issued right at the end of a plan: a client that waits for the engine to arrive at
	// the plan's first terminal write and then calls Wait / Start / Plan
	pAtEnd := 0.12
	if profile == "C04" || profile == "C08" || profile == "C12" {
		pAtEnd = 0.4
	}
	if r.Bool(pAtEnd) {
		pi := r.Intn(len(spec.Plans))
		switch r.Intn(4) {
		case 0, 1:
			cl = append(cl, []ClientOp{{Op: "await-final", Plan: pi}, {Op: "wait", Plan: pi}})
		case 2:
			cl = append(cl, []ClientOp{{Op: "await-final", Plan: pi}, {Op: "start", Plan: pi}, {Op: "wait", Plan: pi}})
		default:
			cl = append(cl, []ClientOp{{Op: "await-final", Plan: pi}, {Op: "plan", Plan: pi}, {Op: "wait", Plan: pi}})
		}
		if r.Bool(0.3) {
			cl = append(cl, []ClientOp{{Op: "await-final", Plan: pi}, {Op: "wait", Plan: pi}})
		}
	}
	if profile != "C12" {
		return cl
	}
	// API misuse histories
	pi := r.Intn(len(spec.Plans))
	switch r.Intn(7) {
	case 0: // duplicate Start by the owner
		cl[pi] = []ClientOp{{Op: "submit", Plan: pi}, {Op: "start", Plan: pi}, {Op: "start", Plan: pi}, {Op: "wait", Plan: pi}}
	case 1: // racing Start from a second client
		cl = append(cl, []ClientOp{{Op: "start", Plan: pi}, {Op: "wait", Plan: pi}})
	case 2: // three racing starts
		cl = append(cl, []ClientOp{{Op: "start", Plan: pi}}, []ClientOp{{Op: "start", Plan: pi}, {Op: "wait", Plan: pi}})
	case 3: // start after the plan finished
		cl[pi] = []ClientOp{{Op: "submit", Plan: pi}, {Op: "start", Plan: pi}, {Op: "wait", Plan: pi}, {Op: "start", Plan: pi}, {Op: "wait", Plan: pi}}
	case 4: // unknown ids
		cl = append(cl, []ClientOp{{Op: "planUnknown"}, {Op: "startUnknown"}, {Op: "waitUnknown"}})
	case 5: // wait / plan / status before start, late second start
		cl[pi] = []ClientOp{{Op: "submit", Plan: pi}, {Op: "wait", Plan: pi}, {Op: "plan", Plan: pi}, {Op: "start", Plan: pi}, {Op: "sleep", Ms: Pick(r, []int64{137, 1500, 9000})}, {Op: "start", Plan: pi}, {Op: "wait", Plan: pi}}
	case 6: // stale submission: sleep around maxSubmit before Start
		maxSub := int64(10000)
		spec.Incs = []IncSpec{{MaxSubmitMs: maxSub}}
		d := Pick(r, []int64{maxSub - 1, maxSub, maxSub + 1, 2 * maxSub, 3000})
		cl[pi] = []ClientOp{{Op: "submit", Plan: pi}, {Op: "sleep", Ms: d}, {Op: "start", Plan: pi}, {Op: "wait", Plan: pi}}
	}
	return cl
}

func (s *RunSpec) String() string {
	return fmt.Sprintf("engine=%s seed=%d plans=%d clients=%d policy=%+v crashes=%v", s.Engine, s.Seed, len(s.Plans), len(s.Clients), s.Policy, s.Crashes)
}
