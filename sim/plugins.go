package sim

import (
	"context"
	"fmt"
	"time"

	"github.com/element-of-surprise/coercion/plugins"
	"github.com/element-of-surprise/coercion/plugins/registry"
	"github.com/element-of-surprise/coercion/workflow"
	"github.com/google/uuid"
	"github.com/gostdlib/base/retry/exponential"
)

// Req / Resp are the request and response types of the sim plugins. Field names
// are chosen not to look like secrets to registry.findSecrets.
type Req struct {
	Path string
	Pad  string
	Bad  any `json:",omitempty"` // set to a channel to make the request unserialisable (E4)
}

type Resp struct {
	Path string
	Inv  int
	Note string
}

const (
	PlugAct    = "sim/act"
	PlugActPtr = "sim/actptr"
	PlugChk    = "sim/chk"
	PlugChkPtr = "sim/chkptr"
)

// Plugin is the environment: a scripted, event-logging plugin. With a nil
// world it is only usable for decoding (Request/Response).
type Plugin struct {
	name  string
	check bool
	ptr   bool
	w     *World
	gen   int
	specs func(path string) *ActionSpec
}

func (p *Plugin) Name() string  { return p.name }
func (p *Plugin) IsCheck() bool { return p.check }
func (p *Plugin) Init() error   { return nil }

func (p *Plugin) Request() any {
	if p.ptr {
		return &Req{}
	}
	return Req{}
}

func (p *Plugin) Response() any {
	if p.ptr {
		return &Resp{}
	}
	return Resp{}
}

func (p *Plugin) ValidateReq(req any) error {
	if p.ptr {
		if _, ok := req.(*Req); !ok {
			return fmt.Errorf("want *Req, got %T", req)
		}
		return nil
	}
	if _, ok := req.(Req); !ok {
		return fmt.Errorf("want Req, got %T", req)
	}
	return nil
}

// RetryPolicy has no jitter: back-off instants are a function of the attempt
// number alone (a legal configuration; stated as an assumption in evidence).
func (p *Plugin) RetryPolicy() exponential.Policy {
	return exponential.Policy{
		InitialInterval:     time.Second,
		Multiplier:          2,
		RandomizationFactor: 0,
		MaxInterval:         8 * time.Second,
	}
}

func reqPath(req any) string {
	switch r := req.(type) {
	case Req:
		return r.Path
	case *Req:
		if r != nil {
			return r.Path
		}
	}
	return "?"
}

func (p *Plugin) Execute(ctx context.Context, req any) (any, *plugins.Error) {
	w := p.w
	path := reqPath(req)
	dead := func() (any, *plugins.Error) {
		return nil, &plugins.Error{Message: "process is dead", Permanent: true}
	}
	if w == nil || w.Dead(p.gen) {
		return dead()
	}
	if !w.Park(p.gen, "pe: "+path) {
		return dead()
	}
	spec := p.specs(path)
	w.mu.Lock()
	k := w.inv[path]
	w.inv[path] = k + 1
	w.mu.Unlock()
	var out Outcome
	if spec == nil {
		out = Outcome{Kind: OK, LatMs: 137}
	} else {
		out = spec.OutcomeAt(k)
	}
	var dl int64
	if d, ok := ctx.Deadline(); ok {
		dl = int64(d.Sub(w.epoch))
	}
	w.Log(Event{Gen: p.gen, Kind: EvPlugEnter, Obj: path, Inv: k, Outcome: out.Kind, Deadline: dl})

	lat := ms(out.LatMs)
	switch out.Kind {
	case OverrunIg:
		time.Sleep(lat)
	default:
		t := time.NewTimer(lat)
		select {
		case <-t.C:
		case <-ctx.Done():
			t.Stop()
		}
	}
	if !w.Park(p.gen, fmt.Sprintf("px: %s #%d", path, k)) {
		return dead()
	}
	ctxDone := ctx.Err() != nil
	w.Log(Event{Gen: p.gen, Kind: EvPlugExit, Obj: path, Inv: k, Outcome: out.Kind, CtxDone: ctxDone})

	mkResp := func(ptr bool) any {
		r := Resp{Path: path, Inv: k, Note: "resp"}
		if ptr {
			return &r
		}
		return r
	}
	switch out.Kind {
	case OK, OverrunIg:
		return mkResp(p.ptr), nil
	case Overrun:
		// honours cancellation: report it as a (transient) error
		return nil, &plugins.Error{Code: 3, Message: fmt.Sprintf("cancelled %s #%d", path, k)}
	case Transient, Permanent:
		return nil, scriptedError(out.Kind, path, k)
	case WrongType:
		return mkResp(!p.ptr), nil
	}
	return mkResp(p.ptr), nil
}

// scriptedError is the error a sim plugin returns for a transient / permanent
// outcome. Only the outer Permanent flag is meaningful to the engine; the flags
// of the wrapped causes vary with (path, invocation) so that nothing may depend
// on them, and the whole chain must come back from storage unchanged.
func scriptedError(kind, path string, k int) *plugins.Error {
	h := propHash(fmt.Sprintf("%s#%d", path, k))
	if kind == Transient {
		return &plugins.Error{Code: 7, Message: fmt.Sprintf("transient %s #%d", path, k),
			Wrapped: &plugins.Error{Code: 8, Message: "inner cause", Permanent: h&1 == 1}}
	}
	return &plugins.Error{Code: 9, Message: fmt.Sprintf("permanent %s #%d", path, k), Permanent: true,
		Wrapped: &plugins.Error{Code: 10, Message: "inner permanent", Permanent: h&2 == 0,
			Wrapped: &plugins.Error{Message: "root", Permanent: h&4 != 0}}}
}

// NewRegistry builds a registry of the four sim plugins bound to a world
// generation. With w == nil the registry is only good for decoding.
func NewRegistry(w *World, gen int, specs func(path string) *ActionSpec) *registry.Register {
	reg := registry.New()
	for _, p := range []*Plugin{
		{name: PlugAct},
		{name: PlugActPtr, ptr: true},
		{name: PlugChk, check: true},
		{name: PlugChkPtr, check: true, ptr: true},
	} {
		p.w, p.gen, p.specs = w, gen, specs
		reg.MustRegister(p)
	}
	return reg
}

// ---------------------------------------------------------------------------
// Building a workflow.Plan from a PlanSpec.
// ---------------------------------------------------------------------------

func groupUUID(g int) uuid.UUID {
	if g == 0 {
		return uuid.Nil
	}
	var u uuid.UUID
	u[0] = 0x01
	u[6] = 0x70 // version 7
	u[8] = 0x80
	u[15] = byte(g)
	return u
}

func buildAction(path string, a *ActionSpec, check bool) *workflow.Action {
	name := PlugAct
	switch {
	case check && a.Ptr:
		name = PlugChkPtr
	case check:
		name = PlugChk
	case a.Ptr:
		name = PlugActPtr
	}
	r := Req{Path: path, Pad: "x"}
	if a.BadReq {
		r.Bad = make(chan int)
	}
	var req any = r
	if a.Ptr {
		req = &r
	}
	return &workflow.Action{
		Name:    path,
		Descr:   "action " + path,
		Plugin:  name,
		Timeout: time.Duration(a.Timeout) * time.Second,
		Retries: a.Retries,
		Req:     req,
	}
}

func buildChecks(path string, c *ChecksSpec) *workflow.Checks {
	if c == nil {
		return nil
	}
	out := &workflow.Checks{Delay: ms(c.DelayMs)}
	for i := range c.Actions {
		out.Actions = append(out.Actions, buildAction(fmt.Sprintf("%s/a%d", path, i), &c.Actions[i], true))
	}
	return out
}

// BuildPlan materialises plan idx of the spec as a fresh workflow.Plan.
func BuildPlan(idx int, p *PlanSpec) *workflow.Plan {
	pp := fmt.Sprintf("p%d", idx)
	plan := &workflow.Plan{
		Name:           pp,
		Descr:          "plan " + pp,
		GroupID:        groupUUID(p.Group),
		Meta:           []byte("meta-" + pp),
		BypassChecks:   buildChecks(pp+"/bypass", p.Bypass),
		PreChecks:      buildChecks(pp+"/pre", p.Pre),
		ContChecks:     buildChecks(pp+"/cont", p.Cont),
		PostChecks:     buildChecks(pp+"/post", p.Post),
		DeferredChecks: buildChecks(pp+"/deferred", p.Deferred),
	}
	for bi := range p.Blocks {
		b := &p.Blocks[bi]
		bp := fmt.Sprintf("%s/b%d", pp, bi)
		blk := &workflow.Block{
			Name:              bp,
			Descr:             "block " + bp,
			EntranceDelay:     ms(b.EntranceMs),
			ExitDelay:         ms(b.ExitMs),
			BypassChecks:      buildChecks(bp+"/bypass", b.Bypass),
			PreChecks:         buildChecks(bp+"/pre", b.Pre),
			ContChecks:        buildChecks(bp+"/cont", b.Cont),
			PostChecks:        buildChecks(bp+"/post", b.Post),
			DeferredChecks:    buildChecks(bp+"/deferred", b.Deferred),
			Concurrency:       b.Concurrency,
			ToleratedFailures: b.Tolerated,
		}
		for si := range b.Seqs {
			sp := fmt.Sprintf("%s/s%d", bp, si)
			seq := &workflow.Sequence{Name: sp, Descr: "seq " + sp}
			for ai := range b.Seqs[si].Actions {
				seq.Actions = append(seq.Actions, buildAction(fmt.Sprintf("%s/a%d", sp, ai), &b.Seqs[si].Actions[ai], false))
			}
			blk.Sequences = append(blk.Sequences, seq)
		}
		plan.Blocks = append(plan.Blocks, blk)
	}
	return plan
}
