package sim

import (
	"log/slog"

	"github.com/gostdlib/base/context"
	"github.com/gostdlib/base/telemetry/log"
)

func init() {
	// Engine log lines are not part of the simulation's output.
	log.LogLevel.Set(slog.LevelError + 8)
	// Create every lazily initialised process-global of the dependencies outside
	// of any bubble.
	_ = context.Background()
}
