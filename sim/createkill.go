package sim

import (
	stdctx "context"
	"encoding/json"
	"fmt"
	"os"
	"os/exec"
	"path/filepath"
	"regexp"
	"runtime"
	"sort"
	"strings"
	"syscall"
	"testing"
	"time"

	"github.com/element-of-surprise/coercion/workflow"
	"github.com/element-of-surprise/coercion/workflow/storage/sqlite"
	"github.com/gostdlib/base/context"
)

// ---------------------------------------------------------------------------
// E4: atomicity of Create/Delete on a real file-backed SQLite store when the
// process is killed, or a write fails, at the n-th write-class system call
// issued during the operation (strace syscall injection around a child
// process). The crash point is counted, not timed.
// ---------------------------------------------------------------------------

// KillSpec is one createkill world.
type KillSpec struct {
	Seed   uint64      `json:"seed"`
	Plans  []StorePlan `json:"plans"`            // the last one is the target; the others are in the store already
	Op     string      `json:"op"`               // create | delete
	Inject string      `json:"inject,omitempty"` // "" (count only) | kill | ENOSPC | EIO
	Call   string      `json:"call,omitempty"`   // pwrite64 | fsync
	When   int         `json:"when,omitempty"`   // n-th call of that kind counted from process start
	N      int         `json:"n,omitempty"`      // the same, counted from the beginning of the operation (informational)
	Dir    string      `json:"dir,omitempty"`
	Phase  string      `json:"phase,omitempty"`
}

func killPlans(ks *KillSpec) []*workflow.Plan {
	r := NewRng(Mix(ks.Seed, 0x6b11))
	var out []*workflow.Plan
	for i := range ks.Plans {
		out = append(out, materialise(i, &ks.Plans[i], r))
	}
	return out
}

// KillChildMain is the child process (TestKillChild, SIM_KILL_SPEC=<file>).
func KillChildMain(t *testing.T) {
	path := os.Getenv("SIM_KILL_SPEC")
	if path == "" {
		t.Skip()
	}
	b, err := os.ReadFile(path)
	if err != nil {
		fmt.Println("CHILD-ERROR", err)
		os.Exit(3)
	}
	var ks KillSpec
	if err := json.Unmarshal(b, &ks); err != nil {
		fmt.Println("CHILD-ERROR", err)
		os.Exit(3)
	}
	runtime.LockOSThread() // every system call of the operation is issued by one thread: a counted crash point
	ctx := context.Background()
	plans := killPlans(&ks)
	v, err := sqlite.New(ctx, ks.Dir, NewRegistry(nil, 0, nil))
	if err != nil {
		fmt.Println("CHILD-ERROR open:", err)
		os.Exit(3)
	}
	target := plans[len(plans)-1]
	if ks.Phase == "prepare" {
		for i, p := range plans {
			if i == len(plans)-1 && ks.Op == "create" {
				break
			}
			if err := v.Create(ctx, p); err != nil {
				fmt.Println("CHILD-ERROR prepare:", err)
				os.Exit(3)
			}
		}
		v.Close(ctx)
		os.Exit(0)
	}
	mark := func(s string) { syscall.Write(2, []byte(s+"\n")) }
	mark("MARK-BEGIN")
	if ks.Op == "create" {
		err = v.Create(ctx, target)
	} else {
		err = v.Delete(ctx, target.ID)
	}
	if err != nil {
		mark("MARK-END-ERR " + strings.ReplaceAll(trunc(err.Error(), 200), "\n", " "))
	} else {
		mark("MARK-END-OK")
	}
	os.Exit(0)
}

var straceOK *bool

func haveStrace() bool {
	if straceOK != nil {
		return *straceOK
	}
	ok := false
	if p, err := exec.LookPath("strace"); err == nil {
		out, err := exec.Command(p, "-f", "-e", "trace=write", "-o", "/dev/null", "true").CombinedOutput()
		ok = err == nil
		_ = out
	}
	straceOK = &ok
	return ok
}

func copyDir(src, dst string) error {
	if err := os.MkdirAll(dst, 0o700); err != nil {
		return err
	}
	ents, err := os.ReadDir(src)
	if err != nil {
		return err
	}
	for _, e := range ents {
		b, err := os.ReadFile(filepath.Join(src, e.Name()))
		if err != nil {
			return err
		}
		if err := os.WriteFile(filepath.Join(dst, e.Name()), b, 0o600); err != nil {
			return err
		}
	}
	return nil
}

type childRun struct {
	exit   int
	ended  string // "", "ok", "err"
	errMsg string
	trace  []string
	stderr string
}

var reCall = regexp.MustCompile(`^(\d+\s+)?(pwrite64|fsync|fdatasync|write)\(`)

// runChild runs the op phase of ks, optionally under strace.
func runChild(self string, ks *KillSpec, strace bool) (*childRun, error) {
	specFile := filepath.Join(ks.Dir, "..", filepath.Base(ks.Dir)+".spec.json")
	c := *ks
	c.Phase = "op"
	b, _ := json.Marshal(&c)
	if err := os.WriteFile(specFile, b, 0o600); err != nil {
		return nil, err
	}
	defer os.Remove(specFile)
	args := []string{self, "-test.run", "^TestKillChild$", "-test.count", "1"}
	traceFile := specFile + ".strace"
	defer os.Remove(traceFile)
	var cmd *exec.Cmd
	if strace {
		sa := []string{"-f", "-o", traceFile, "-e", "trace=pwrite64,fsync,fdatasync,write", "-e", "signal=none"}
		if ks.Inject != "" {
			call := ks.Call
			if call == "fsync" {
				call = "fsync,fdatasync"
			}
			if ks.Inject == "kill" {
				sa = append(sa, "-e", fmt.Sprintf("inject=%s:signal=SIGKILL:when=%d", call, ks.When))
			} else {
				sa = append(sa, "-e", fmt.Sprintf("inject=%s:error=%s:when=%d", call, ks.Inject, ks.When))
			}
		}
		cmd = exec.Command("strace", append(sa, args...)...)
	} else {
		cmd = exec.Command(args[0], args[1:]...)
	}
	cmd.Env = append(os.Environ(), "SIM_KILL_SPEC="+specFile, "GOMAXPROCS=1")
	out, err := cmd.CombinedOutput()
	cr := &childRun{stderr: string(out)}
	if ee, ok := err.(*exec.ExitError); ok {
		cr.exit = ee.ExitCode()
		if ws, ok := ee.Sys().(syscall.WaitStatus); ok && ws.Signaled() {
			cr.exit = 128 + int(ws.Signal())
		}
	} else if err != nil {
		return nil, err
	}
	if strings.Contains(cr.stderr, "CHILD-ERROR") {
		return cr, fmt.Errorf("child: %s", trunc(cr.stderr, 400))
	}
	switch {
	case strings.Contains(cr.stderr, "MARK-END-OK"):
		cr.ended = "ok"
	case strings.Contains(cr.stderr, "MARK-END-ERR"):
		cr.ended = "err"
		i := strings.Index(cr.stderr, "MARK-END-ERR")
		cr.errMsg = strings.SplitN(cr.stderr[i:], "\n", 2)[0]
	}
	if strace {
		if tb, err := os.ReadFile(traceFile); err == nil {
			cr.trace = strings.Split(string(tb), "\n")
		}
	}
	return cr, nil
}

// countCalls returns, for pwrite64 and fsync(+fdatasync): the number of calls
// before MARK-BEGIN and between MARK-BEGIN and MARK-END on the thread that
// issued MARK-BEGIN.
func countCalls(trace []string) (before, during map[string]int, ok bool) {
	before, during = map[string]int{}, map[string]int{}
	pid := ""
	for _, l := range trace {
		if strings.Contains(l, "MARK-BEGIN") && strings.Contains(l, "write(2") {
			if f := strings.Fields(l); len(f) > 0 {
				pid = f[0]
			}
		}
	}
	if pid == "" {
		return nil, nil, false
	}
	state := 0
	for _, l := range trace {
		f := strings.Fields(l)
		if len(f) < 2 {
			continue
		}
		if strings.Contains(l, "write(2") && strings.Contains(l, "MARK-BEGIN") {
			state = 1
			continue
		}
		if strings.Contains(l, "write(2") && strings.Contains(l, "MARK-END") {
			state = 2
			continue
		}
		m := reCall.FindStringSubmatch(l)
		if m == nil || m[2] == "write" {
			continue
		}
		call := m[2]
		if call == "fdatasync" {
			call = "fsync"
		}
		if f[0] != pid {
			if state == 1 {
				return nil, nil, false // a write-class call during the operation on another thread: counting would be unsound
			}
			continue // injection counters are per thread
		}
		switch state {
		case 0:
			before[call]++
		case 1:
			during[call]++
		}
	}
	return before, during, state == 2
}

// verifyKill opens the store in this (fresh) process and evaluates C14.r1-r4/r7.
func verifyKill(ks *KillSpec, cr *childRun, v *vset) {
	ctx := context.Background()
	plans := killPlans(ks)
	target := plans[len(plans)-1]
	tIdx := len(plans) - 1
	how := ks.Inject
	if how == "kill" {
		how = "process killed"
	} else {
		how = "write failed with " + how
	}
	how += " at a " + ks.Call + " during " + ks.Op
	vault, err := sqlite.New(ctx, ks.Dir, NewRegistry(nil, 0, nil))
	if err != nil {
		v.addf("C14", "C14.r1", "store cannot be opened after: "+how, nil, "%v", err)
		return
	}
	defer vault.Close(stdctx.Background())
	// r3: the other plans are intact
	for i := 0; i < tIdx; i++ {
		got, err := vault.Read(ctx, plans[i].ID)
		if err != nil || got == nil {
			v.addf("C14", "C14.r3", "another plan became unreadable after: "+how, nil, "plan p%d: %v", i, err)
			continue
		}
		if d := diffFull(FullSnap(i, plans[i]), FullSnap(i, got)); d != "" {
			v.addf("C14", "C14.r3", "another plan changed after: "+how+" ("+d+")", nil, "plan p%d", i)
		}
	}
	// r2: the target is completely there or not at all
	got, rerr := vault.Read(ctx, target.ID)
	complete := rerr == nil && got != nil && got.ID == target.ID && diffFull(FullSnap(tIdx, target), FullSnap(tIdx, got)) == ""
	rows := killTraces(vault, tIdx, target)
	absent := rows == ""
	switch {
	case complete:
	case absent:
	default:
		v.addf("C14", "C14.r2", "plan partly stored after: "+how, nil, "read error: %v; rows left: %s", rerr, rows)
	}
	// r4: acknowledged => durable
	if cr.ended == "ok" {
		if ks.Op == "create" && !complete {
			v.addf("C14", "C14.r4", "Create was acknowledged but the plan is not completely stored after: "+how, nil, "rows: %s", rows)
		}
		if ks.Op == "delete" && !absent {
			v.addf("C14", "C14.r7", "Delete was acknowledged but rows of the plan remain after: "+how, nil, "rows: %s", rows)
		}
	}
	if cr.ended == "err" && ks.Op == "create" && !absent && !complete {
		v.addf("C14", "C14.r2", "failed Create left traces of the plan after: "+how, nil, "rows: %s", rows)
	}
}

func killTraces(sv *sqlite.Vault, idx int, p *workflow.Plan) string {
	ids := map[string]string{}
	for _, o := range FullSnap(idx, p).Objs {
		ids[o.ID] = o.Path
	}
	conn, err := sv.Pool().Take(stdctx.Background())
	if err != nil {
		return "cannot take a connection: " + err.Error()
	}
	defer sv.Pool().Put(conn)
	var found []string
	for _, table := range []string{"plans", "blocks", "checks", "sequences", "actions"} {
		stmt, _, err := conn.PrepareTransient("SELECT id FROM " + table)
		if err != nil {
			continue
		}
		for {
			has, err := stmt.Step()
			if err != nil || !has {
				break
			}
			if path, ok := ids[stmt.ColumnText(0)]; ok {
				found = append(found, table+":"+path)
			}
		}
		stmt.Finalize()
	}
	sort.Strings(found)
	if len(found) > 6 {
		found = append(found[:6], fmt.Sprintf("… %d rows", len(found)))
	}
	return strings.Join(found, " ")
}

func genKill(seed uint64, idx int) *KillSpec {
	r := NewRng(seed).Sub("gen-kill")
	g := &genCtx{r: r, size: Pick(r, []int{0, 0, 1})}
	g.pCheck = Pick(r, []float64{0, 0.4, 0.8})
	ks := &KillSpec{Seed: seed, Op: "create"}
	if idx%3 == 2 {
		ks.Op = "delete"
	}
	n := 1 + r.Intn(3)
	for i := 0; i < n; i++ {
		p := g.plan()
		if len(p.Blocks) > 3 {
			p.Blocks = p.Blocks[:3]
		}
		if r.Bool(0.15) {
			g.widen(&p)
		}
		ks.Plans = append(ks.Plans, StorePlan{Shape: p, Meta: r.Intn(3), Keys: r.Bool(0.3), SubmitMs: int64(i) * 1000})
	}
	return ks
}

// runKillCase prepares a fresh store, runs the child with the injection and verifies.
func runKillCase(self, base string, ks *KillSpec, prepared string) ([]Violation, *childRun, error) {
	dir, err := os.MkdirTemp(base, "case-")
	if err != nil {
		return nil, nil, err
	}
	defer os.RemoveAll(dir)
	store := filepath.Join(dir, "store")
	if err := copyDir(prepared, store); err != nil {
		return nil, nil, err
	}
	c := *ks
	c.Dir = store
	cr, err := runChild(self, &c, true)
	if err != nil {
		return nil, cr, err
	}
	v := &vset{}
	verifyKill(&c, cr, v)
	return v.list, cr, nil
}

func prepareStore(self, base string, ks *KillSpec) (string, error) {
	dir, err := os.MkdirTemp(base, "prep-")
	if err != nil {
		return "", err
	}
	store := filepath.Join(dir, "store")
	c := *ks
	c.Dir, c.Phase = store, "prepare"
	b, _ := json.Marshal(&c)
	specFile := filepath.Join(dir, "prepare.json")
	os.WriteFile(specFile, b, 0o600)
	cmd := exec.Command(self, "-test.run", "^TestKillChild$", "-test.count", "1")
	cmd.Env = append(os.Environ(), "SIM_KILL_SPEC="+specFile)
	out, err := cmd.CombinedOutput()
	if err != nil || strings.Contains(string(out), "CHILD-ERROR") {
		os.RemoveAll(dir)
		return "", fmt.Errorf("prepare failed: %v %s", err, trunc(string(out), 300))
	}
	return store, nil
}

func createKillWorker(t *testing.T, job *Job) {
	res := &WorkerResult{Faults: map[string]int{}, Probes: map[string]int{}, Extra: map[string]int{}}
	start := time.Now()
	deadline := start.Add(time.Duration(job.WallMs) * time.Millisecond)
	write := func() {
		res.WallMs = time.Since(start).Milliseconds()
		sort.Strings(res.Sigs)
		ob, _ := json.Marshal(res)
		os.WriteFile(job.Out, ob, 0o644)
	}
	if !haveStrace() {
		res.Extra["kill_at_syscall_unavailable"] = 1
		write()
		return
	}
	self, err := os.Executable()
	if err != nil {
		res.Harness = append(res.Harness, "os.Executable: "+err.Error())
		write()
		return
	}
	base, err := os.MkdirTemp("", "verif-kill-")
	if err != nil {
		res.Harness = append(res.Harness, err.Error())
		write()
		return
	}
	defer os.RemoveAll(base)
	byClass := map[string]*Found{}
	sigs := map[string]bool{}
	expired := func() bool { return job.Only == nil && job.WallMs > 0 && time.Now().After(deadline) }
	for k := 0; ; k++ {
		var idx int
		if job.Only != nil {
			if k >= len(job.Only) {
				break
			}
			idx = job.Only[k]
		} else {
			if (job.MaxRuns > 0 && k >= job.MaxRuns) || expired() {
				break
			}
			idx = job.Offset + k*job.Stride
		}
		seed := RunSeed(job.BaseSeed, job.Engine, job.Property, idx)
		if res.FirstSeed == 0 {
			res.FirstSeed = seed
		}
		res.LastSeed = seed
		ks := genKill(seed, idx)
		prepared, err := prepareStore(self, base, ks)
		if err != nil {
			res.Harness = append(res.Harness, fmt.Sprintf("index %d: %v", idx, err))
			continue
		}
		// learn the number of write-class calls of the operation
		c := *ks
		cdir, _ := os.MkdirTemp(base, "count-")
		c.Dir = filepath.Join(cdir, "store")
		copyDir(prepared, c.Dir)
		cr, err := runChild(self, &c, true)
		os.RemoveAll(cdir)
		if err != nil || cr.ended != "ok" {
			res.Harness = append(res.Harness, fmt.Sprintf("index %d: counting run failed: %v %s", idx, err, trunc(fmt.Sprint(cr), 300)))
			os.RemoveAll(filepath.Dir(prepared))
			continue
		}
		before, during, ok := countCalls(cr.trace)
		if !ok || during["pwrite64"] == 0 {
			res.Extra["operations_not_countable"]++
			os.RemoveAll(filepath.Dir(prepared))
			continue
		}
		res.Extra["operations"]++
		res.Extra["op_"+ks.Op]++
		r := NewRng(seed).Sub("kill-points")
		type inj struct {
			kind, call string
			n          int
		}
		var cases []inj
		thorough := job.Tier == "thorough"
		for _, call := range []string{"pwrite64", "fsync"} {
			N := during[call]
			if N == 0 {
				continue
			}
			if thorough {
				for n := 1; n <= N; n++ {
					cases = append(cases, inj{"kill", call, n})
				}
				res.Extra["operations_fully_enumerated_"+call]++
			} else {
				for s := 0; s < 5 && s < N; s++ {
					cases = append(cases, inj{"kill", call, 1 + r.Intn(N)})
				}
			}
			for s := 0; s < 2; s++ {
				cases = append(cases, inj{Pick(r, []string{"ENOSPC", "EIO"}), call, 1 + r.Intn(N)})
			}
		}
		complete := true
		for _, ic := range cases {
			if expired() {
				complete = false
				break
			}
			kc := *ks
			kc.Inject, kc.Call, kc.N, kc.When = ic.kind, ic.call, ic.n, before[ic.call]+ic.n
			vs, cr2, err := runKillCase(self, base, &kc, prepared)
			res.Runs++
			if err != nil {
				res.Harness = append(res.Harness, fmt.Sprintf("index %d %+v: %v", idx, ic, err))
				continue
			}
			if ic.kind == "kill" {
				res.Faults["kill@"+ic.call]++
				if cr2.exit == 137 {
					res.Probes["child killed by the injected SIGKILL"]++
				} else {
					res.Probes["injection point not reached (operation completed)"]++
				}
			} else {
				res.Faults[ic.kind+"@"+ic.call]++
				if cr2.ended == "err" {
					res.Probes["operation returned an error after the injected errno"]++
				}
			}
			res.Nontrivial++
			sg := fmt.Sprintf("%s/%s/%s/%d/%d/%s", ks.Op, ic.kind, ic.call, ic.n, cr2.exit, cr2.ended)
			if !sigs[sg] {
				sigs[sg] = true
				res.Sigs = append(res.Sigs, fmt.Sprintf("%016x", propHash(fmt.Sprintf("%d/%s", idx, sg))))
			}
			if len(res.Samples) < 2 {
				res.Samples = append(res.Samples, map[string]any{"index": idx, "op": ks.Op, "plans": len(ks.Plans), "inject": ic.kind, "call": ic.call, "n": ic.n, "of": during[ic.call], "child_exit": cr2.exit, "child_ended": cr2.ended})
			}
			for _, v := range vs {
				if f := byClass[v.Class]; f != nil {
					f.Count++
					continue
				}
				f := &Found{Index: idx, Seed: seed, V: v, Count: 1}
				byClass[v.Class] = f
				res.Found = append(res.Found, f)
				rep := &Replay{Property: v.Prop, Engine: job.Engine, Class: v.Class, Msg: v.Msg, BaseSeed: job.BaseSeed, Index: idx, Seed: seed, Kill: &kc}
				if job.ReplayDir != "" {
					name := fmt.Sprintf("%s/%s-%s-%d-%016x.json", job.ReplayDir, v.Prop, job.Engine, idx, propHash(v.Class))
					rb, _ := json.MarshalIndent(rep, "", " ")
					if err := os.WriteFile(name, rb, 0o644); err == nil {
						f.Replay = name
					}
				}
			}
		}
		if thorough && complete {
			res.Extra["operations_fully_enumerated"]++
		}
		os.RemoveAll(filepath.Dir(prepared))
	}
	write()
}

func createKillReplay(t *testing.T, rep *Replay) {
	if !haveStrace() {
		fmt.Println("HARNESS strace unavailable")
		return
	}
	self, _ := os.Executable()
	base, err := os.MkdirTemp("", "verif-kill-replay-")
	if err != nil {
		fmt.Println("HARNESS", err)
		return
	}
	defer os.RemoveAll(base)
	prepared, err := prepareStore(self, base, rep.Kill)
	if err != nil {
		fmt.Println("HARNESS", err)
		return
	}
	vs, cr, err := runKillCase(self, base, rep.Kill, prepared)
	if err != nil {
		fmt.Println("HARNESS", err)
		return
	}
	for _, v := range vs {
		if v.Class == rep.Class {
			fmt.Printf("REPRODUCED property=%s class=%q\n  %s\n  child exit %d, ended %q\n", v.Prop, v.Class, v.Msg, cr.exit, cr.ended)
			return
		}
	}
	fmt.Printf("NOT-REPRODUCED class=%q (classes seen: %d; child exit %d, ended %q)\n", rep.Class, len(vs), cr.exit, cr.ended)
}
