package sim

import (
	"hash/fnv"
	"os"
	"fmt"
	"sort"
	"strings"
	"sync"
	"testing/synctest"
	"time"
)

// Event is one entry of the global, totally ordered event log of a run.
// Events are only appended by a goroutine that has just been released by the
// scheduler (or by the controlling goroutine while everything else is
// quiescent), so their order is a function of the scheduler's decisions.
type Event struct {
	Seq      int       `json:"seq"`
	Ref      int       `json:"ref,omitempty"` // write-ack: Seq of the write event it answers
	T        int64     `json:"t"`             // simulated ns since the epoch of the run
	Gen      int       `json:"g"`
	Kind     string    `json:"k"`
	Obj      string    `json:"o,omitempty"`
	Client   int       `json:"c,omitempty"`
	Inv      int       `json:"inv,omitempty"`      // plugin invocation index of Obj (0-based, over the whole run)
	Outcome  string    `json:"out,omitempty"`      // scripted outcome kind (plug-enter/plug-exit)
	Deadline int64     `json:"deadline,omitempty"` // ctx deadline seen at plug-enter (ns since epoch)
	CtxDone  bool      `json:"ctxdone,omitempty"`  // plug-exit: ctx was cancelled when the plugin returned
	W        *ObjState `json:"w,omitempty"`        // write: what was written
	Op       string    `json:"op,omitempty"`       // api op / vault op
	Err      string    `json:"err,omitempty"`
	Plan     *PlanSnap `json:"plan,omitempty"` // api-ret of wait/plan/status: the plan returned
	Note     string    `json:"note,omitempty"`
	Labels   []string  `json:"labels,omitempty"` // park: labels of operations that arrived since the last decision (sorted)
}

// Event kinds.
const (
	EvAPICall   = "api-call"
	EvAPIRet    = "api-ret"
	EvWrite     = "write"
	EvWriteAck  = "write-ack" // the engine got the answer of a durable write (only with PolicySpec.WriteLatUs > 0)
	EvRead      = "read"
	EvPlugEnter = "plug-enter"
	EvPlugExit  = "plug-exit"
	EvCrash     = "crash"
	EvRestart   = "restart"
	EvNewRet    = "new-ret"
	EvDirect    = "direct-read" // harness read of the underlying store, not via the engine
	EvFault     = "fault"
	EvHang      = "hang"
	EvPanic     = "panic"
	EvEnd       = "end"
	EvPark      = "park"
)

type release struct {
	zombie bool
	delay  time.Duration
}

type parkedOp struct {
	label     string
	arrival   uint64
	gen       int
	ch        chan release
	delayed   bool // already delayed once: never delayed again
	announced bool // its arrival has been logged
}

// World is one simulated world: scheduler, clock epoch, event log, fault state.
type World struct {
	Spec *RunSpec

	mu       sync.Mutex
	parked   []*parkedOp
	arrivals uint64
	wake     chan struct{}
	stop     chan struct{}
	stopped  chan struct{}

	sched     *Rng
	decisions []int
	forced    []int
	steps     int
	maxSteps  int
	overrun   bool // step budget exhausted

	epoch  time.Time
	events []Event

	gen int // current incarnation; ops of older generations are zombies

	// write counting / crash injection (per incarnation)
	writes     int
	crashAt    int
	crashSig   map[int]chan struct{} // per incarnation: closed when that incarnation dies
	crashCount int // process deaths so far (set before the generation switch)
	failWrite  int
	totalWrite int

	// finalCh[i] is closed when the engine arrives at the first terminal write of plan i
	finalCh map[int]chan struct{}
	// primaryDone is closed when every client that does not wait for such a signal is done
	primaryDone chan struct{}

	// plugin invocation counters per action path
	inv map[string]int

	// uuid -> logical path
	paths map[[16]byte]string

	// stats
	Faults map[string]int
	Probes map[string]int

	detselPerms int
	reads       int

	// state of the "prio" policy
	prioDemoted map[string]int
	prioChange  map[int]bool

	// onFailWrite is called (E5) right before an injected write error is returned.
	onFailWrite func()
}

func NewWorld(spec *RunSpec) *World {
	w := &World{
		Spec:        spec,
		wake:        make(chan struct{}, 1),
		stop:        make(chan struct{}),
		stopped:     make(chan struct{}),
		sched:       NewRng(spec.SchedSeed),
		forced:      spec.Decisions,
		maxSteps:    200000,
		epoch:       time.Now(),
		inv:         map[string]int{},
		paths:       map[[16]byte]string{},
		Faults:      map[string]int{},
		Probes:      map[string]int{},
		crashSig:    map[int]chan struct{}{},
		finalCh:     map[int]chan struct{}{},
		primaryDone: make(chan struct{}),
	}
	return w
}

func (w *World) Now() int64 { return int64(time.Since(w.epoch)) }

// Log appends an event. Callers must be the only running goroutine (see Event).
func (w *World) Log(e Event) int {
	w.mu.Lock()
	defer w.mu.Unlock()
	e.Seq = len(w.events)
	e.T = w.Now()
	w.events = append(w.events, e)
	return e.Seq
}

func (w *World) Events() []Event {
	w.mu.Lock()
	defer w.mu.Unlock()
	out := make([]Event, len(w.events))
	copy(out, w.events)
	return out
}

func (w *World) Gen() int {
	w.mu.Lock()
	defer w.mu.Unlock()
	return w.gen
}

func (w *World) Dead(gen int) bool {
	w.mu.Lock()
	defer w.mu.Unlock()
	return gen != w.gen
}

func (w *World) fault(kind string) {
	w.mu.Lock()
	w.Faults[kind]++
	w.mu.Unlock()
}

func (w *World) Probe(name string) {
	w.mu.Lock()
	w.Probes[name]++
	w.mu.Unlock()
}

func (w *World) SetPath(id [16]byte, path string) {
	w.mu.Lock()
	w.paths[id] = path
	w.mu.Unlock()
}

func (w *World) PathOf(id [16]byte) string {
	w.mu.Lock()
	defer w.mu.Unlock()
	if p, ok := w.paths[id]; ok {
		return p
	}
	return "?"
}

// Park blocks the calling goroutine until the scheduler releases it. It returns
// false if the caller's generation died while (or before) it was parked: the
// caller is then a zombie and must wind down without touching the store or the
// event log.
func (w *World) Park(gen int, label string) bool {
	delayed := false
	for {
		w.mu.Lock()
		if gen != w.gen {
			w.mu.Unlock()
			return false
		}
		w.arrivals++
		op := &parkedOp{label: label, arrival: w.arrivals, gen: gen, ch: make(chan release, 1), delayed: delayed, announced: delayed}
		w.parked = append(w.parked, op)
		w.mu.Unlock()
		select {
		case w.wake <- struct{}{}:
		default:
		}
		rel := <-op.ch
		if rel.zombie {
			return false
		}
		if rel.delay > 0 {
			time.Sleep(rel.delay)
			delayed = true
			continue
		}
		return true
	}
}

// nextDecision picks an index in [0,n).
func (w *World) choose(n int, labels []string) int {
	idx := -1
	if w.forced != nil {
		if len(w.decisions) < len(w.forced) {
			idx = w.forced[len(w.decisions)] & 0xffff
			if idx >= n || idx < 0 {
				idx = 0
			}
		} else {
			idx = 0
		}
	} else {
		idx = w.policyPick(n, labels)
	}
	w.decisions = append(w.decisions, idx)
	return idx
}

func (w *World) policyPick(n int, labels []string) int {
	p := w.Spec.Policy
	if n == 1 {
		// still consume one value so that the stream position only depends on the step count
		w.sched.Uint64()
		return 0
	}
	switch p.Kind {
	case "first":
		if w.sched.Bool(p.P) {
			return w.sched.Intn(n)
		}
		return 0
	case "last":
		if w.sched.Bool(p.P) {
			return w.sched.Intn(n)
		}
		return n - 1
	case "starve":
		var ok []int
		for i, l := range labels {
			if !strings.Contains(l, p.Starve) {
				ok = append(ok, i)
			}
		}
		r := w.sched.Uint64()
		if len(ok) == 0 {
			return int(r % uint64(n))
		}
		return ok[int(r%uint64(len(ok)))]
	case "prio":
		return w.prioPick(n, labels)
	default:
		return w.sched.Intn(n)
	}
}

// prioPick is a priority schedule in the spirit of PCT (Burckhardt et al., ASPLOS 2010)
// over operation labels instead of threads: every label has a fixed pseudo-random
// priority (a function of SchedSeed and the label), the parked operation with the
// highest priority always goes first, and at Policy.Changes pseudo-random steps of the
// run the operation that would go first is demoted below everything else for the rest
// of the run. A bug that needs d particular orderings is reached with probability
// polynomial in 1/steps instead of exponentially small under uniform picks; in
// particular one goroutine can be held at a scheduling point while many others pass.
func (w *World) prioPick(n int, labels []string) int {
	w.sched.Uint64() // one draw per step, like every other policy
	if w.prioDemoted == nil {
		w.prioDemoted = map[string]int{}
		w.prioChange = map[int]bool{}
		r := NewRng(Mix(w.Spec.SchedSeed, 0x9c7))
		horizon := Pick(r, []int{40, 120, 400, 1200})
		for i := 0; i < w.Spec.Policy.Changes; i++ {
			w.prioChange[r.Intn(horizon)] = true
		}
	}
	prio := func(l string) uint64 {
		if k, ok := w.prioDemoted[l]; ok {
			return uint64(1 << 20) - uint64(k) // later demotions rank lower
		}
		h := fnv.New64a()
		h.Write([]byte(l))
		return Mix(w.Spec.SchedSeed, h.Sum64(), 0x9c8) | (1 << 40)
	}
	best := func() int {
		b := 0
		for i := 1; i < n; i++ {
			if prio(labels[i]) > prio(labels[b]) {
				b = i
			}
		}
		return b
	}
	b := best()
	if w.prioChange[len(w.decisions)] && n > 1 {
		w.prioDemoted[labels[b]] = len(w.prioDemoted) + 1
		b = best()
	}
	return b
}

// schedulerLoop is the only place where a parked operation is released.
func (w *World) schedulerLoop() {
	defer close(w.stopped)
	for {
		synctest.Wait()
		w.mu.Lock()
		if len(w.parked) == 0 {
			w.mu.Unlock()
			select {
			case <-w.wake:
				continue
			case <-w.stop:
				return
			}
		}
		sort.SliceStable(w.parked, func(i, j int) bool {
			if w.parked[i].label != w.parked[j].label {
				return w.parked[i].label < w.parked[j].label
			}
			return w.parked[i].arrival < w.parked[j].arrival
		})
		labels := make([]string, len(w.parked))
		var fresh []string
		for i, op := range w.parked {
			labels[i] = op.label
			if !op.announced {
				op.announced = true
				fresh = append(fresh, op.label)
			}
		}
		if len(fresh) > 0 {
			w.events = append(w.events, Event{Seq: len(w.events), T: w.Now(), Gen: w.gen, Kind: EvPark, Labels: fresh})
		}
		w.steps++
		if w.steps > w.maxSteps {
			w.overrun = true
		}
		idx := w.choose(len(w.parked), labels)
		if debugDecisions {
			fmt.Fprintf(os.Stderr, "DEC %d t=%s pick=%d of %q\n", len(w.decisions)-1, fmtT(w.Now()), idx, labels)
		}
		op := w.parked[idx]
		w.parked = append(w.parked[:idx], w.parked[idx+1:]...)
		rel := release{}
		if w.forced == nil && !op.delayed && w.Spec.Policy.DelayP > 0 && delayable(op.label) {
			// one extra draw per step keeps the stream aligned whatever the outcome
			if w.sched.Bool(w.Spec.Policy.DelayP) {
				rel.delay = time.Duration(1+w.sched.Intn(9))*time.Second + 411*time.Millisecond
				w.Faults["delay"]++
				w.decisions[len(w.decisions)-1] = idx | (int(rel.delay/time.Millisecond) << 16)
			}
		} else if w.forced != nil && !op.delayed {
			// replay: the delay is encoded in the recorded decision
			if k := len(w.decisions) - 1; k < len(w.forced) {
				if d := w.forced[k] >> 16; d > 0 {
					rel.delay = time.Duration(d) * time.Millisecond
					w.Faults["delay"]++
					w.decisions[k] = idx | (d << 16)
				}
			}
		}
		if w.overrun {
			rel = release{zombie: true}
		}
		w.mu.Unlock()
		op.ch <- rel
	}
}

func delayable(label string) bool {
	return strings.HasPrefix(label, "w:") || strings.HasPrefix(label, "px:") || strings.HasPrefix(label, "r:")
}

// Kill bumps the generation: every operation of the old generation, parked or
// arriving later, becomes a zombie. Must be called from a released goroutine
// or the controller while the world is otherwise quiescent.
func (w *World) Kill() {
	w.mu.Lock()
	w.gen++
	var keep []*parkedOp
	for _, op := range w.parked {
		if op.gen != w.gen {
			op.ch <- release{zombie: true}
		} else {
			keep = append(keep, op)
		}
	}
	w.parked = keep
	w.mu.Unlock()
}

func (w *World) Stop() {
	close(w.stop)
	<-w.stopped
}

func (w *World) Decisions() []int {
	w.mu.Lock()
	defer w.mu.Unlock()
	return append([]int(nil), w.decisions...)
}

func (w *World) Steps() int {
	w.mu.Lock()
	defer w.mu.Unlock()
	return w.steps
}

func (w *World) ParkedLabels() []string {
	w.mu.Lock()
	defer w.mu.Unlock()
	var out []string
	for _, op := range w.parked {
		out = append(out, op.label)
	}
	sort.Strings(out)
	return out
}

// ReplyDelay decides whether the reply of the n-th storage read of the run is
// delivered late. It is a function of (SchedSeed, n) so that it replays with
// any decision list.
func (w *World) ReplyDelay() time.Duration {
	w.mu.Lock()
	defer w.mu.Unlock()
	w.reads++
	p := w.Spec.Policy.ReplyP
	if p <= 0 {
		return 0
	}
	r := NewRng(Mix(w.Spec.SchedSeed, uint64(w.reads), 0x51e9))
	if !r.Bool(p) {
		return 0
	}
	w.Faults["slow-read-reply"]++
	return Pick(r, []time.Duration{time.Second, 10 * time.Second, 100 * time.Second, 1000 * time.Second}) + 273*time.Millisecond
}

// CrashSig returns the channel that is closed when incarnation gen dies (one channel
// per incarnation: nothing stale can leak into the next one).
func (w *World) CrashSig(gen int) chan struct{} {
	w.mu.Lock()
	defer w.mu.Unlock()
	ch := w.crashSig[gen]
	if ch == nil {
		ch = make(chan struct{})
		w.crashSig[gen] = ch
	}
	return ch
}

// CrashCount returns the number of process deaths injected so far.
func (w *World) CrashCount() int {
	w.mu.Lock()
	defer w.mu.Unlock()
	return w.crashCount
}

// FinalCh returns the channel that is closed when the engine is about to store a
// terminal state of plan i (clients use it to issue calls right at the end of a plan).
func (w *World) FinalCh(i int) chan struct{} {
	w.mu.Lock()
	defer w.mu.Unlock()
	ch := w.finalCh[i]
	if ch == nil {
		ch = make(chan struct{})
		w.finalCh[i] = ch
	}
	return ch
}

// SignalFinal closes FinalCh(i) once.
func (w *World) SignalFinal(i int) {
	ch := w.FinalCh(i)
	w.mu.Lock()
	defer w.mu.Unlock()
	select {
	case <-ch:
	default:
		close(ch)
	}
}

// Yield is a scheduling point inside the engine, in front of an access to shared
// in-memory state (see the yield pass of /verif/orch/detsel): with Policy.Yields the
// calling goroutine parks like any other seam operation, so that check-then-act
// sequences on the engine's maps and counters can be interleaved by the seed. Only
// the first incarnation takes part: after a process death its goroutines run
// unobserved, and a goroutine cannot tell which incarnation it belongs to.
// Policy.YieldAllGens (never generated, kept for experiments) books the operation on
// the incarnation alive at its arrival instead. That was tried and is NOT sound: a
// death releases all goroutines of the dead process at once, they race with each
// other on their own in-memory state (truly in parallel), and which of them arrives
// at which scheduling point then depends on the Go scheduler (determinism self-test:
// 20 of 24 000 crash runs diverged in their decision lists). See DESIGN section 13.
func (w *World) Yield(where string) {
	if !w.Spec.Policy.Yields {
		return
	}
	w.mu.Lock()
	g := w.gen
	w.mu.Unlock()
	if g != 0 && !w.Spec.Policy.YieldAllGens {
		return
	}
	w.Park(g, "y: "+where)
}

// YieldCtx is Yield for a scheduling point that has a context in scope. The harness
// marks the context it hands to coercion.New and to every API call with the incarnation
// (WithGen), and the engine derives its contexts from those, so here the caller's
// process is known: a goroutine of a dead process passes through (it must never be
// parked again, see Kill), a goroutine of the live process parks - also in a recovering
// incarnation, which is what lets the seed interleave the in-memory steps of recovery
// (several plans recovered at once, claim / waiter bookkeeping of the new Workstream).
// A context that carries no mark (the engine used context.Background(), as fixBlock
// does for the sequences it re-executes) is treated like a point without context.
func (w *World) YieldCtx(ctx interface{ Value(any) any }, where string) {
	if !w.Spec.Policy.Yields {
		return
	}
	g, ok := ctx.Value(genKey{}).(int)
	if !ok {
		w.Yield(where)
		return
	}
	w.mu.Lock()
	cur := w.gen
	w.mu.Unlock()
	if g != cur {
		return
	}
	if g != 0 {
		if w.Spec.Policy.YieldGen0Only {
			return
		}
		w.Probe("scheduling point inside a recovering incarnation")
	}
	w.Park(g, "y: "+where)
}

// DetselPerm is installed as the hook the rewritten non-blocking selects call:
// it returns the order in which the n receive clauses are polled.
func (w *World) DetselPerm(n int) []int {
	w.mu.Lock()
	defer w.mu.Unlock()
	perm := make([]int, n)
	for i := range perm {
		perm[i] = i
	}
	w.detselPerms++
	// The caller is an engine goroutine running between two seams; it is the only
	// runnable engine goroutine of its causal chain, so drawing here is ordered.
	// To stay independent of cross-chain timing the order is a function of the
	// number of scheduler steps taken so far, not of a shared stream position.
	r := NewRng(Mix(w.Spec.SchedSeed, uint64(len(w.decisions)), 0x5e1ec7))
	for i := n - 1; i > 0; i-- {
		j := r.Intn(i + 1)
		perm[i], perm[j] = perm[j], perm[i]
	}
	return perm
}

var debugDecisions = os.Getenv("SIM_DECLOG") != ""

func fmtT(ns int64) string { return fmt.Sprintf("%.3fs", float64(ns)/1e9) }
