package sim

import (
	"context"
	"errors"
	"fmt"
	"time"

	"github.com/element-of-surprise/coercion/workflow"
	"github.com/element-of-surprise/coercion/workflow/storage"
	"github.com/google/uuid"
)

type clientKey struct{}

// WithClient tags a context with the simulated client issuing the call, so that
// seam labels of concurrent callers differ.
func WithClient(ctx context.Context, c int) context.Context {
	return context.WithValue(ctx, clientKey{}, c)
}

type genKey struct{}

// WithGen marks a context with the incarnation (simulated process) it belongs to. The
// engine derives every context it uses from the one given to coercion.New or to an API
// call (context.WithoutCancel keeps values), so a scheduling point with a context in
// scope can tell a goroutine of the live process from one of a dead process.
func WithGen(ctx context.Context, gen int) context.Context {
	return context.WithValue(ctx, genKey{}, gen)
}

func clientOf(ctx context.Context) int {
	if v, ok := ctx.Value(clientKey{}).(int); ok {
		return v
	}
	return -1
}

var errDead = errors.New("sim: process is dead")

// SimVault is the storage seam: it wraps the real vault ("the disk"), makes
// every call a scheduling point, logs every applied write, counts writes as
// crash points and turns calls of dead incarnations into no-ops.
type SimVault struct {
	storage.Vault // the real vault; embedding also satisfies private.Storage
	w             *World
	gen           int
}

func NewSimVault(w *World, gen int, disk storage.Vault) *SimVault {
	return &SimVault{Vault: disk, w: w, gen: gen}
}

// beforeWrite parks, then applies crash / error injection. It returns
// (proceed, errToReturn).
func (v *SimVault) beforeWrite(label string) (bool, error) {
	w := v.w
	if !w.Park(v.gen, "w: "+label) {
		return false, nil
	}
	w.mu.Lock()
	w.writes++
	w.totalWrite++
	n := w.writes
	crash := w.crashAt > 0 && n == w.crashAt
	fail := w.failWrite > 0 && w.totalWrite == w.failWrite
	w.mu.Unlock()
	if crash {
		w.mu.Lock()
		w.crashCount++
		w.mu.Unlock()
		w.Log(Event{Gen: v.gen, Kind: EvCrash, Note: fmt.Sprintf("before write %d: %s", n, label)})
		w.fault("crash")
		sig := w.CrashSig(v.gen)
		w.Kill()
		close(sig)
		return false, nil
	}
	if fail {
		w.Log(Event{Gen: v.gen, Kind: EvFault, Note: "write-error", Op: label})
		w.fault("write-error")
		if failStopHook != nil {
			failStopHook(w)
		}
		return false, fmt.Errorf("sim: injected storage write error")
	}
	return true, nil
}

// ack models the time a durable write takes: the caller gets its answer WriteLatUs
// of simulated time after the write was applied. Answers that fall on the same
// instant are handed out one at a time by the scheduler (seam "wa:"), so the order
// in which the engine learns of its writes is decided by the seed as well.
func (v *SimVault) ack(writeSeq int, path, op string) {
	us := v.w.Spec.Policy.WriteLatUs
	if us <= 0 {
		return
	}
	time.Sleep(time.Duration(us) * time.Microsecond)
	if !v.w.Park(v.gen, "wa: "+op+" "+path) {
		return
	}
	v.w.Log(Event{Gen: v.gen, Kind: EvWriteAck, Obj: path, Op: op, Ref: writeSeq})
}

func stLabel(s *workflow.State) string {
	if s == nil {
		return "nil"
	}
	return stName(int(s.Status))
}

func (v *SimVault) UpdatePlan(ctx context.Context, p *workflow.Plan) error {
	path := v.w.PathOf(p.ID)
	if p.State != nil && (p.State.Status == workflow.Completed || p.State.Status == workflow.Failed) {
		if i := PlanOfPath(path); i >= 0 {
			v.w.SignalFinal(i)
		}
	}
	ok, err := v.beforeWrite(fmt.Sprintf("UpdatePlan %s %s", path, stLabel(p.State)))
	if !ok {
		return err
	}
	st := snapState(p.State)
	st.Reason = int(p.Reason)
	err = v.Vault.UpdatePlan(ctx, p)
	v.ack(v.w.Log(Event{Gen: v.gen, Kind: EvWrite, Obj: path, Op: "UpdatePlan", W: &st, Err: errStr(err)}), path, "UpdatePlan")
	return err
}

func (v *SimVault) UpdateBlock(ctx context.Context, b *workflow.Block) error {
	path := v.w.PathOf(b.ID)
	ok, err := v.beforeWrite(fmt.Sprintf("UpdateBlock %s %s", path, stLabel(b.State)))
	if !ok {
		return err
	}
	st := snapState(b.State)
	err = v.Vault.UpdateBlock(ctx, b)
	v.ack(v.w.Log(Event{Gen: v.gen, Kind: EvWrite, Obj: path, Op: "UpdateBlock", W: &st, Err: errStr(err)}), path, "UpdateBlock")
	return err
}

func (v *SimVault) UpdateChecks(ctx context.Context, c *workflow.Checks) error {
	path := v.w.PathOf(c.ID)
	ok, err := v.beforeWrite(fmt.Sprintf("UpdateChecks %s %s", path, stLabel(c.State)))
	if !ok {
		return err
	}
	st := snapState(c.State)
	err = v.Vault.UpdateChecks(ctx, c)
	v.ack(v.w.Log(Event{Gen: v.gen, Kind: EvWrite, Obj: path, Op: "UpdateChecks", W: &st, Err: errStr(err)}), path, "UpdateChecks")
	return err
}

func (v *SimVault) UpdateSequence(ctx context.Context, s *workflow.Sequence) error {
	path := v.w.PathOf(s.ID)
	ok, err := v.beforeWrite(fmt.Sprintf("UpdateSequence %s %s", path, stLabel(s.State)))
	if !ok {
		return err
	}
	st := snapState(s.State)
	err = v.Vault.UpdateSequence(ctx, s)
	v.ack(v.w.Log(Event{Gen: v.gen, Kind: EvWrite, Obj: path, Op: "UpdateSequence", W: &st, Err: errStr(err)}), path, "UpdateSequence")
	return err
}

func (v *SimVault) UpdateAction(ctx context.Context, a *workflow.Action) error {
	path := v.w.PathOf(a.ID)
	ok, err := v.beforeWrite(fmt.Sprintf("UpdateAction %s %s n=%d", path, stLabel(a.State), len(a.Attempts)))
	if !ok {
		return err
	}
	st := snapAction(a)
	err = v.Vault.UpdateAction(ctx, a)
	v.ack(v.w.Log(Event{Gen: v.gen, Kind: EvWrite, Obj: path, Op: "UpdateAction", W: &st, Err: errStr(err)}), path, "UpdateAction")
	return err
}

func (v *SimVault) Create(ctx context.Context, p *workflow.Plan) error {
	if idx := PlanOfPath(p.Name); idx >= 0 {
		registerPaths(v.w, idx, p)
	}
	path := v.w.PathOf(p.ID)
	if !v.w.Park(v.gen, fmt.Sprintf("c: Create %s c%d", path, clientOf(ctx))) {
		return errDead
	}
	err := v.Vault.Create(ctx, p)
	v.w.Log(Event{Gen: v.gen, Kind: EvWrite, Obj: path, Op: "Create", Err: errStr(err)})
	return err
}

func (v *SimVault) Delete(ctx context.Context, id uuid.UUID) error {
	path := v.w.PathOf(id)
	if !v.w.Park(v.gen, fmt.Sprintf("c: Delete %s c%d", path, clientOf(ctx))) {
		return errDead
	}
	err := v.Vault.Delete(ctx, id)
	v.w.Log(Event{Gen: v.gen, Kind: EvWrite, Obj: path, Op: "Delete", Err: errStr(err)})
	return err
}

func (v *SimVault) Read(ctx context.Context, id uuid.UUID) (*workflow.Plan, error) {
	path := v.w.PathOf(id)
	if !v.w.Park(v.gen, fmt.Sprintf("r: Read %s c%d", path, clientOf(ctx))) {
		return nil, errDead
	}
	p, err := v.Vault.Read(ctx, id)
	v.w.Log(Event{Gen: v.gen, Kind: EvRead, Obj: path, Op: "Read", Client: clientOf(ctx), Err: errStr(err)})
	if d := v.w.ReplyDelay(); d > 0 {
		// slow reply: the caller gets what was read d ago
		time.Sleep(d)
		if !v.w.Park(v.gen, fmt.Sprintf("rr: Read %s c%d", path, clientOf(ctx))) {
			return nil, errDead
		}
	}
	return p, err
}

func (v *SimVault) Exists(ctx context.Context, id uuid.UUID) (bool, error) {
	path := v.w.PathOf(id)
	if !v.w.Park(v.gen, fmt.Sprintf("r: Exists %s c%d", path, clientOf(ctx))) {
		return false, errDead
	}
	return v.Vault.Exists(ctx, id)
}

func (v *SimVault) Search(ctx context.Context, f storage.Filters) (chan storage.Stream[storage.ListResult], error) {
	if !v.w.Park(v.gen, fmt.Sprintf("r: Search c%d", clientOf(ctx))) {
		return nil, errDead
	}
	ch, err := v.Vault.Search(ctx, f)
	v.w.Log(Event{Gen: v.gen, Kind: EvRead, Op: "Search", Client: clientOf(ctx), Err: errStr(err)})
	return ch, err
}

func (v *SimVault) List(ctx context.Context, limit int) (chan storage.Stream[storage.ListResult], error) {
	if !v.w.Park(v.gen, fmt.Sprintf("r: List c%d", clientOf(ctx))) {
		return nil, errDead
	}
	return v.Vault.List(ctx, limit)
}

// Close of an incarnation's wrapper never closes the disk.
func (v *SimVault) Close(ctx context.Context) error { return nil }

func errStr(err error) string {
	if err == nil {
		return ""
	}
	return err.Error()
}
