package sim

import (
	"encoding/json"
	"fmt"
	"sort"
	"strings"
)

// Oracle C04: what Wait returns. The consistency part (checkConsistency) and the
// truthfulness part are reused by C10 on recovered plans.

// Failure reasons (workflow.FailureReason values).
const (
	frUnknown  = 0
	frPre      = 100
	frBlock    = 200
	frPost     = 300
	frCont     = 400
	frDeferred = 450
	frExceed   = 600
)

func reasonName(r int) string {
	switch r {
	case frUnknown:
		return "Unknown"
	case frPre:
		return "PreCheck"
	case frBlock:
		return "Block"
	case frPost:
		return "PostCheck"
	case frCont:
		return "ContCheck"
	case frDeferred:
		return "DeferredCheck"
	case 500:
		return "Stopped"
	case frExceed:
		return "ExceedRecovery"
	}
	return fmt.Sprintf("Reason(%d)", r)
}

// startedWaits returns the Wait calls that were issued after a Start of the same
// plan had returned nil in the same incarnation (E1), i.e. waits on a started plan.
func startedWaits(t *Trace) []*APIRec {
	var out []*APIRec
	for _, a := range t.APIs {
		if a.Op != "wait" || a.RetSeq < 0 {
			continue
		}
		for _, s := range t.APIs {
			if s.Op == "start" && s.Plan == a.Plan && s.Gen == a.Gen && s.RetSeq >= 0 && s.Err == "" && s.RetSeq < a.CallSeq {
				out = append(out, a)
				break
			}
		}
	}
	return out
}

func kindLabel(o *Obj) string {
	switch o.Kind {
	case KPlan:
		return "plan"
	case KBlock:
		return "block"
	case KSeq:
		return "sequence"
	case KChecks:
		if o.Block >= 0 {
			return "block " + o.Group + " checks"
		}
		return "plan " + o.Group + " checks"
	case KAction:
		if o.IsSeqAction() {
			return "sequence action"
		}
		if o.Block >= 0 {
			return "block " + o.Group + " check action"
		}
		return "plan " + o.Group + " check action"
	}
	return "object"
}

// runningShape summarises which kinds of object are still Running in a snapshot.
func runningShape(l *Layout, p *PlanSnap) string {
	set := map[string]bool{}
	for _, o := range l.Objs {
		if status(p, o.Path) == StRunning {
			set[kindLabel(o)] = true
		}
	}
	var ks []string
	for k := range set {
		ks = append(ks, k)
	}
	sort.Strings(ks)
	return strings.Join(ks, ", ")
}

// checkConsistency applies C04.r1, r2, r5 to a final plan snapshot.
func checkConsistency(prop string, l *Layout, p *PlanSnap, v *vset) {
	pp := planPath(l.Plan)
	pst := status(p, pp)
	// r1 terminal
	if pst != StCompleted && pst != StFailed {
		v.addf(prop, prop+".r1", "final plan is "+stName(pst), nil, "plan %s returned in status %s", pp, stName(pst))
	}
	// r2 nothing Running (one class per kind of object, so that combinations do not multiply classes)
	if shape := runningShape(l, p); shape != "" {
		for _, k := range strings.Split(shape, ", ") {
			v.addf(prop, prop+".r2", "final plan has a Running "+k, nil, "plan %s (%s) still has Running: %s", pp, stName(pst), shape)
		}
	}
	// r5 consistency
	if pst == StCompleted && !bypassed(l, p, pp) {
		for bi := range l.Spec.Blocks {
			if st := status(p, blockPath(l.Plan, bi)); st != StCompleted {
				v.addf(prop, prop+".r5", "Completed plan has a "+stName(st)+" block", nil, "plan %s Completed but block %d is %s", pp, bi, stName(st))
			}
		}
		for _, g := range []string{"pre", "cont", "post", "deferred"} {
			if l.HasGroup(pp, g) && status(p, groupPath(pp, g)) == StFailed {
				v.addf(prop, prop+".r5", "Completed plan has a Failed "+g+" check", nil, "plan %s Completed but %s is Failed", pp, groupPath(pp, g))
			}
		}
	}
	for bi := range l.Spec.Blocks {
		for si := range l.Spec.Blocks[bi].Seqs {
			sp := seqPath(l.Plan, bi, si)
			sst := status(p, sp)
			n := len(l.Spec.Blocks[bi].Seqs[si].Actions)
			switch sst {
			case StCompleted:
				for ai := 0; ai < n; ai++ {
					if st := status(p, fmt.Sprintf("%s/a%d", sp, ai)); st != StCompleted {
						v.addf(prop, prop+".r5", "Completed sequence has a "+stName(st)+" action", nil, "%s Completed but action %d is %s", sp, ai, stName(st))
					}
				}
			case StFailed:
				failedAt := -1
				nFailed := 0
				lastAttempted := -1
				for ai := 0; ai < n; ai++ {
					st, _ := p.Get(fmt.Sprintf("%s/a%d", sp, ai))
					if st.Status == StFailed {
						nFailed++
						failedAt = ai
					}
					if len(st.Attempts) > 0 {
						lastAttempted = ai
					}
				}
				if nFailed != 1 {
					v.addf(prop, prop+".r5", fmt.Sprintf("Failed sequence has %d Failed actions", nFailed), nil, "%s Failed with %d Failed actions", sp, nFailed)
				} else {
					if failedAt != lastAttempted {
						v.addf(prop, prop+".r5", "Failed action is not the last one attempted", nil, "%s: action %d Failed but action %d is the last with attempts", sp, failedAt, lastAttempted)
					}
					for ai := 0; ai < failedAt; ai++ {
						if st := status(p, fmt.Sprintf("%s/a%d", sp, ai)); st != StCompleted {
							v.addf(prop, prop+".r5", "action before the Failed one is "+stName(st), nil, "%s: action %d is %s before Failed action %d", sp, ai, stName(st), failedAt)
						}
					}
					for ai := failedAt + 1; ai < n; ai++ {
						st, _ := p.Get(fmt.Sprintf("%s/a%d", sp, ai))
						if st.Status != StNotStarted || len(st.Attempts) != 0 || st.Start != 0 || st.End != 0 {
							v.addf(prop, prop+".r5", "action after the Failed one is not untouched", nil, "%s: action %d after Failed action %d is %s with %d attempts", sp, ai, failedAt, stName(st.Status), len(st.Attempts))
						}
					}
				}
			}
		}
	}
	for _, o := range l.Objs {
		st, ok := p.Get(o.Path)
		if !ok {
			v.addf(prop, prop+".r5", "object missing from the final plan", nil, "%s missing", o.Path)
			continue
		}
		if o.Kind == KAction {
			na := len(st.Attempts)
			lastOK := na > 0 && st.Attempts[na-1].Err == nil
			if st.Status == StCompleted && !lastOK {
				v.addf(prop, prop+".r5", "Completed action whose final attempt has an error or is missing", nil, "%s Completed with %d attempts, last ok=%v", o.Path, na, lastOK)
			}
			if lastOK && st.Status != StCompleted && st.Status != StRunning {
				v.addf(prop, prop+".r5", stName(st.Status)+" action whose final attempt has no error", nil, "%s is %s but its final attempt succeeded", o.Path, stName(st.Status))
			}
			for k, a := range st.Attempts {
				if a.Start > a.End {
					v.addf(prop, prop+".r5", "attempt with start > end", nil, "%s attempt %d: start %d end %d", o.Path, k, a.Start, a.End)
				}
			}
		}
		if st.Start > st.End && !(st.End == 0 && st.Status == StRunning) { // a Running object is r2's business
			shape := "start > end on a " + kindLabel(o)
			if st.End == 0 {
				shape = stName(st.Status) + " " + kindLabel(o) + " has a start but no end"
			}
			v.addf(prop, prop+".r5", shape, nil, "%s: start %d end %d status %s", o.Path, st.Start, st.End, stName(st.Status))
		}
	}
}

// anyRunFailed: some run of the action ended in failure.
func anyRunFailed(t *Trace, path string) bool {
	for _, run := range t.Runs(path) {
		if len(run) > 0 && run[len(run)-1].FailedInv() {
			return true
		}
	}
	return false
}

// checkTruthful applies C04.r6 and r7: stored statuses and the reason agree with
// what the trace shows was executed.
func checkTruthful(prop string, t *Trace, l *Layout, p *PlanSnap, v *vset) {
	pp := planPath(l.Plan)
	for _, o := range l.Objs {
		st, ok := p.Get(o.Path)
		if !ok {
			continue
		}
		switch o.Kind {
		case KAction:
			last := t.LastRun(o.Path)
			switch st.Status {
			case StCompleted:
				if !runOK(last) {
					v.addf(prop, prop+".r6", "action stored Completed without a successful final invocation ("+kindLabel(o)+")", nil, "%s Completed but its last run has %d invocations, final ok=%v", o.Path, len(last), runOK(last))
				}
			case StFailed:
				if len(last) == 0 || !last[len(last)-1].FailedInv() {
					v.addf(prop, prop+".r6", "action stored Failed without a failing final invocation ("+kindLabel(o)+")", nil, "%s Failed but its last run has %d invocations", o.Path, len(last))
				}
			case StNotStarted:
				if len(t.ByPath[o.Path]) > 0 && o.IsSeqAction() {
					v.addf(prop, prop+".r6", "sequence action stored NotStarted although it was invoked", nil, "%s NotStarted but was invoked %d times", o.Path, len(t.ByPath[o.Path]))
				}
			}
		case KChecks:
			acts := l.GroupActions(o.Scope(), o.Group)
			switch st.Status {
			case StCompleted:
				for _, a := range acts {
					if !runOK(t.LastRun(a.Path)) {
						v.addf(prop, prop+".r6", kindLabel(o)+" stored Completed although an action's last run did not succeed", nil, "%s Completed but %s did not succeed last", o.Path, a.Path)
					}
				}
			case StFailed:
				any := false
				for _, a := range acts {
					if anyRunFailed(t, a.Path) {
						any = true
					}
				}
				if !any {
					v.addf(prop, prop+".r6", kindLabel(o)+" stored Failed although no run of its actions failed", nil, "%s Failed but no action run failed", o.Path)
				}
			}
		}
	}
	// r7 reason
	pst, _ := p.Get(pp)
	if pst.Status == StCompleted {
		if pst.Reason != frUnknown {
			v.addf(prop, prop+".r7", "Completed plan has reason "+reasonName(pst.Reason), nil, "plan %s Completed with reason %s", pp, reasonName(pst.Reason))
		}
		return
	}
	if pst.Status != StFailed {
		return
	}
	allowed := map[int]bool{}
	for g, r := range map[string]int{"pre": frPre, "cont": frCont, "post": frPost, "deferred": frDeferred} {
		for _, a := range l.GroupActions(pp, g) {
			if anyRunFailed(t, a.Path) {
				allowed[r] = true
			}
		}
	}
	for bi := range l.Spec.Blocks {
		if status(p, blockPath(l.Plan, bi)) == StFailed {
			allowed[frBlock] = true
		}
	}
	if !allowed[pst.Reason] {
		var as []string
		for r := range allowed {
			as = append(as, reasonName(r))
		}
		sort.Strings(as)
		shape := "Failed plan has reason " + reasonName(pst.Reason) + " but the failing stage was " + strings.Join(as, "/")
		if len(as) == 0 {
			shape = "Failed plan has reason " + reasonName(pst.Reason) + " and no stage failed"
		}
		v.addf(prop, prop+".r7", shape, nil, "plan %s Failed with reason %s; stages that failed: %v", pp, reasonName(pst.Reason), as)
	}
}

func oracleC04(t *Trace, v *vset) {
	for _, wa := range startedWaits(t) {
		l := t.Layouts[wa.Plan]
		pp := planPath(wa.Plan)
		if wa.Err != "" || wa.Snap == nil {
			v.addf("C04", "C04.r1", "Wait on a started plan returned an error", []int{wa.RetSeq}, "Wait(%s) = %q", pp, wa.Err)
			continue
		}
		p := wa.Snap
		checkConsistency("C04", l, p, v)
		checkTruthful("C04", t, l, p, v)
		// r3 quiescent
		for _, in := range t.invsUnder(pp, nil) {
			if in.Gen != wa.Gen {
				continue
			}
			if in.Enter2 < 2*wa.RetSeq && in.End2 > 2*wa.RetSeq {
				v.addf("C04", "C04.r3", "plugin still executing when Wait returned ("+kindOfInvLevel(in)+")", []int{in.EnterSeq, wa.RetSeq}, "%s (#%d) in flight when Wait(%s) returned", in.Path, in.K, pp)
			}
			if in.Enter2 > 2*wa.RetSeq {
				v.addf("C04", "C04.r3", "plugin invoked after Wait returned ("+kindOfInvLevel(in)+")", []int{wa.RetSeq, in.EnterSeq}, "%s (#%d) invoked after Wait(%s) returned", in.Path, in.K, pp)
			}
		}
		// r4 stable
		for _, w := range t.Writes {
			if w.Seq > wa.RetSeq && w.Gen == wa.Gen && (w.Path == pp || under(w.Path, pp)) {
				if rewritesSame(t, w) {
					continue // the stored plan does not change
				}
				o := t.Obj(w.Path)
				kl := "object"
				if o != nil {
					kl = kindLabel(o)
				}
				v.addf("C04", "C04.r4", "storage write after Wait returned ("+kl+")", []int{wa.RetSeq, w.Seq}, "%s %s written after Wait(%s) returned", w.Op, w.Path, pp)
				break
			}
		}
		for _, note := range []string{"D0", "D1", "D2"} {
			for _, e := range t.Direct[note] {
				if e.Obj != pp || e.Seq < wa.RetSeq || e.Gen != wa.Gen {
					continue
				}
				if eq, where := p.Equal(e.Plan); !eq {
					shape := "plan read later differs from the plan Wait returned"
					if note == "D0" {
						shape = "stored plan differs from the plan Wait returned"
					}
					if o := t.Obj(where); o != nil {
						shape += " (" + kindLabel(o) + ")"
					}
					v.addf("C04", "C04.r4", shape, []int{wa.RetSeq, e.Seq}, "plan %s: %s read differs at %s", pp, note, where)
				}
				break
			}
		}
	}
	// r8 liveness
	if t.Res.Hang {
		shape := "run did not finish"
		for _, e := range t.Direct["hang"] {
			pi := PlanOfPath(e.Obj)
			if e.Plan != nil && pi >= 0 && status(e.Plan, e.Obj) == StRunning {
				shape = hangShape(t.Layouts[pi], e.Plan)
				break
			}
		}
		v.addf("C04", "C04.r8", "hang: "+shape, nil, "watchdog expired after %s of simulated time; parked: %s", fmtT(t.Res.SimNs), hangNote(t))
	}
}

func kindOfInvLevel(in *Inv) string {
	if in.Obj == nil {
		return "action"
	}
	return kindLabel(in.Obj)
}

func hangNote(t *Trace) string {
	for _, e := range t.Events {
		if e.Kind == EvHang {
			return e.Note
		}
	}
	return ""
}

// hangShape abstracts the stored state of a plan that never finished.
func hangShape(l *Layout, p *PlanSnap) string {
	var parts []string
	for bi := range l.Spec.Blocks {
		bp := blockPath(l.Plan, bi)
		if status(p, bp) != StRunning && status(p, bp) != StFailed {
			continue
		}
		var gs []string
		for _, g := range []string{"bypass", "pre", "cont", "post", "deferred"} {
			if l.HasGroup(bp, g) {
				gs = append(gs, g+"="+stName(status(p, groupPath(bp, g))))
			}
		}
		parts = append(parts, fmt.Sprintf("block %s [%s]", stName(status(p, bp)), strings.Join(gs, " ")))
		break
	}
	if len(parts) == 0 {
		var gs []string
		pp := planPath(l.Plan)
		for _, g := range []string{"bypass", "pre", "cont", "post", "deferred"} {
			if l.HasGroup(pp, g) {
				gs = append(gs, g+"="+stName(status(p, groupPath(pp, g))))
			}
		}
		parts = append(parts, fmt.Sprintf("plan Running [%s]", strings.Join(gs, " ")))
	}
	return strings.Join(parts, "; ")
}

// rewritesSame: the write stores exactly what the previous applied write of the
// same object stored (an idempotent rewrite: the stored plan does not change).
func rewritesSame(t *Trace, w *WriteRec) bool {
	var prev *WriteRec
	for _, x := range t.WByPath[w.Path] {
		if x.Seq < w.Seq {
			prev = x
		}
	}
	if prev == nil {
		return false
	}
	a, _ := json.Marshal(prev.St)
	b, _ := json.Marshal(w.St)
	return string(a) == string(b)
}
