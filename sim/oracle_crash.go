package sim

import (
	"fmt"
	"sort"
	"strings"
	"time"
)

// Oracles of the crash engine (E2): C09 (no re-execution of durable work), C10
// (recovery converges), C11 (what start-up touches), and the C15.r5 clause
// (durably Running plans are found by the status search recovery relies on).

// crashInfo describes one process death of a run.
type crashInfo struct {
	Seq      int
	Gen      int // the generation that died
	T        int64
	D        map[int]*PlanSnap // store snapshot at the crash, per plan (nil: plan not in the store)
	RestartT int64             // instant of the restart (-1: none)
	NewRetT  int64             // instant at which coercion.New returned in the next incarnation (-1: it did not)
	Final    map[int]*PlanSnap // store at the end of the next incarnation (next crash's D, or D2/hang read)
}

func crashesOf(t *Trace) []*crashInfo {
	var out []*crashInfo
	for _, cs := range t.Crashes {
		e := t.Events[cs]
		ci := &crashInfo{Seq: cs, Gen: e.Gen, T: e.T, D: map[int]*PlanSnap{}, RestartT: -1, NewRetT: -1, Final: map[int]*PlanSnap{}}
		for _, d := range t.Direct["crash"] {
			if d.Gen == e.Gen {
				ci.D[PlanOfPath(d.Obj)] = d.Plan
			}
		}
		for _, ev := range t.Events[cs:] {
			if ev.Kind == EvRestart && ev.Gen == e.Gen+1 {
				ci.RestartT = ev.T
			}
			if ev.Kind == EvNewRet && ev.Gen == e.Gen+1 {
				ci.NewRetT = ev.T
				break
			}
		}
		out = append(out, ci)
	}
	for k, ci := range out {
		if k+1 < len(out) {
			ci.Final = out[k+1].D
			continue
		}
		for i := range t.Layouts {
			ci.Final[i] = t.FinalSnap(i)
		}
	}
	return out
}

// invFailedForGood: the invocation failed in a way the engine observed (it
// returned a failure, or its deadline passed), as opposed to being cut by a crash.
func invFailedForGood(in *Inv) bool {
	if !in.Ended || in.Succeeded() {
		return false
	}
	return in.ExitSeq >= 0 || (in.Deadline > 0 && in.EndT == in.Deadline)
}

func attemptOK(st ObjState) bool {
	for _, a := range st.Attempts {
		if a.Err == nil {
			return true
		}
	}
	return false
}

func oracleC09(t *Trace, v *vset) {
	for k, ci := range crashesOf(t) {
		which := "first"
		if k > 0 {
			which = "second"
		}
		// r6: "only actions that were in flight may be invoked again": an action of a
		// bypass / pre / post / deferred check group that was durably Completed, in a
		// group that was durably Completed, is not invoked by the recovering process.
		// (Continuous checks are re-run by design.)
		for _, in := range t.Invs {
			if in.Gen != ci.Gen+1 || in.Obj == nil || !in.Obj.IsCheckAction() || in.Obj.Group == "cont" {
				continue
			}
			d := ci.D[in.Obj.Plan]
			if d == nil {
				continue
			}
			if status(d, in.Obj.Path) == StCompleted && status(d, in.Obj.Parent) == StCompleted {
				v.addf("C09", "C09.r6", "action of a durably Completed "+in.Obj.Group+" check group invoked again"+" (after the "+which+" crash)", []int{ci.Seq, in.EnterSeq}, "%s invoked in the recovering process; the action and its group %s were stored Completed at the crash", in.Obj.Path, in.Obj.Parent)
			}
		}
		for _, in := range t.Invs {
			if in.Gen != ci.Gen+1 || in.Obj == nil || !in.Obj.IsSeqAction() {
				continue
			}
			d := ci.D[in.Obj.Plan]
			if d == nil {
				continue
			}
			o := in.Obj
			st, _ := d.Get(o.Path)
			after := " (after the " + which + " crash)"
			if st.Status == StCompleted || attemptOK(st) {
				v.addf("C09", "C09.r1", "sequence action invoked again although its success was durable ("+stName(st.Status)+" at the crash)"+after, []int{ci.Seq, in.EnterSeq}, "%s invoked in the recovering process; at the crash it was stored %s with %d attempts", o.Path, stName(st.Status), len(st.Attempts))
				continue
			}
			for _, anc := range []struct{ path, kind string }{{o.Parent, "sequence"}, {o.Scope(), "block"}, {planPath(o.Plan), "plan"}} {
				if s := status(d, anc.path); s == StCompleted || s == StFailed {
					v.addf("C09", "C09.r2", "action invoked although its "+anc.kind+" was durably "+stName(s)+after, []int{ci.Seq, in.EnterSeq}, "%s invoked in the recovering process; %s was stored %s at the crash", o.Path, anc.path, stName(s))
				}
			}
			if st.Status != StNotStarted && st.Status != StRunning {
				v.addf("C09", "C09.r3", "sequence action invoked again although it was durably "+stName(st.Status)+after, []int{ci.Seq, in.EnterSeq}, "%s invoked in the recovering process; stored %s at the crash", o.Path, stName(st.Status))
			}
		}
	}
}

// oracleC09same: also inside one incarnation (in particular a recovering one,
// whose own repairs are durable) a sequence action is never invoked again once it
// has been stored Completed or Failed by that incarnation.
func oracleC09same(t *Trace, v *vset) {
	type key struct {
		path string
		gen  int
	}
	done := map[key]*WriteRec{}
	wi := 0
	for _, in := range t.Invs {
		for wi < len(t.Writes) && t.Writes[wi].Seq < in.EnterSeq {
			w := t.Writes[wi]
			if o := t.Obj(w.Path); o != nil && o.IsSeqAction() && (w.St.Status == StCompleted || w.St.Status == StFailed) {
				if _, ok := done[key{w.Path, w.Gen}]; !ok {
					done[key{w.Path, w.Gen}] = w
				}
			}
			wi++
		}
		if in.Obj == nil || !in.Obj.IsSeqAction() || in.Gen == 0 {
			continue
		}
		if w := done[key{in.Path, in.Gen}]; w != nil {
			v.addf("C09", "C09.r5", "sequence action invoked again after the recovering process itself had stored it "+stName(w.St.Status), []int{w.Seq, in.EnterSeq}, "%s invoked (#%d) after it was written %s in the same incarnation", in.Path, in.K, stName(w.St.Status))
		}
	}
}

// refOutcome is the reference evaluator of C10.r4: the outcome of a plan whose
// plugin outcomes are a function of the action alone, computed from the spec
// without looking at the engine.
func refOutcome(p *PlanSpec) (st int, allowed map[int]bool) {
	st, allowed, _ = refOutcomeBlocks(p)
	return
}

// specConstant: every outcome of the plan is a function of the action alone and
// returns before the action's timeout.
func specConstant(p *PlanSpec) bool {
	seqActs, checkActs := collectActions(p)
	for _, c := range append(seqActs, checkActs...) {
		if len(c.a.Script) > 0 {
			return false
		}
		if k := c.a.Default.Kind; k != OK && k != Permanent {
			return false
		}
		if ms(c.a.Default.LatMs) >= c.a.EffTimeout() {
			return false
		}
	}
	return true
}

// refOutcomeBlocks additionally returns the expected final status of every block
// (StNotStarted for blocks that are never entered; -1 where the model does not
// decide, i.e. blocks of a plan whose own gate fails).
func refOutcomeBlocks(p *PlanSpec) (st int, allowed map[int]bool, blocks []int) {
	blocks = make([]int, len(p.Blocks))
	for i := range blocks {
		blocks[i] = StNotStarted
	}
	allowed = map[int]bool{}
	actOK := func(a *ActionSpec) bool { return a.Default.Kind == OK && len(a.Script) == 0 }
	groupOK := func(c *ChecksSpec) bool {
		for i := range c.Actions {
			if !actOK(&c.Actions[i]) {
				return false
			}
		}
		return true
	}
	if p.Bypass != nil && groupOK(p.Bypass) {
		return StCompleted, allowed, blocks
	}
	failed := false
	deferred := func() {
		if p.Deferred != nil && !groupOK(p.Deferred) {
			allowed[frDeferred] = true
			failed = true
		}
	}
	gate := false
	if p.Pre != nil && !groupOK(p.Pre) {
		allowed[frPre] = true
		gate = true
	}
	if p.Cont != nil && !groupOK(p.Cont) {
		allowed[frCont] = true
		gate = true
	}
	if gate {
		deferred()
		return StFailed, allowed, blocks
	}
	for bi := range p.Blocks {
		b := &p.Blocks[bi]
		if b.Bypass != nil && groupOK(b.Bypass) {
			blocks[bi] = StCompleted
			continue
		}
		bf := false
		if (b.Pre != nil && !groupOK(b.Pre)) || (b.Cont != nil && !groupOK(b.Cont)) {
			bf = true
		} else {
			nf := 0
			for si := range b.Seqs {
				for ai := range b.Seqs[si].Actions {
					if !actOK(&b.Seqs[si].Actions[ai]) {
						nf++
						break
					}
				}
			}
			if b.Tolerated >= 0 && nf > b.Tolerated {
				bf = true
			} else if b.Post != nil && !groupOK(b.Post) {
				bf = true
			}
		}
		if b.Deferred != nil && !groupOK(b.Deferred) {
			bf = true
		}
		if bf {
			blocks[bi] = StFailed
			allowed[frBlock] = true
			deferred()
			return StFailed, allowed, blocks
		}
		blocks[bi] = StCompleted
	}
	if p.Post != nil && !groupOK(p.Post) {
		allowed[frPost] = true
		failed = true
	}
	deferred()
	if failed {
		return StFailed, allowed, blocks
	}
	return StCompleted, allowed, blocks
}

func reasonSet(m map[int]bool) string {
	var s []string
	for r := range m {
		s = append(s, reasonName(r))
	}
	sort.Strings(s)
	return strings.Join(s, "/")
}

func maxAgeOf(spec *RunSpec, inc int) int64 {
	if m := spec.Inc(inc).MaxLastUpdateMs; m > 0 {
		return m * 1e6
	}
	return int64(30 * time.Minute)
}

// lastActivity returns the newest State timestamp, and the newest timestamp when
// attempt times are counted too (both unix ns).
func lastActivity(p *PlanSnap) (states, withAttempts int64) {
	states = lastUpdateOf(p)
	withAttempts = states
	for _, st := range p.States {
		for _, a := range st.Attempts {
			if a.Start > withAttempts {
				withAttempts = a.Start
			}
			if a.End > withAttempts {
				withAttempts = a.End
			}
		}
	}
	return
}

// agedOut classifies a plan that was durably Running at a crash: +1 must be
// closed as stale, -1 must be resumed, 0 either (the newest attempt timestamp is
// within the maximum but the newest object Start/End is not).
func agedOut(t *Trace, ci *crashInfo, d *PlanSnap) int {
	if ci.RestartT < 0 {
		return -1
	}
	maxAge := maxAgeOf(t.Res.Spec, ci.Gen+1)
	st, wa := lastActivity(d)
	// The engine reads the clock somewhere between the restart and the return of coercion.New
	// (later than the restart when storage replies are slow).
	earliest, latest := ci.RestartT, ci.NewRetT
	if latest < earliest {
		latest = 1 << 62 // New never returned: no upper bound
	}
	switch {
	case earliest-(wa-epochUnixNs) > maxAge: // stale even at the earliest instant and by the most generous reading
		return 1
	case latest-(st-epochUnixNs) <= maxAge: // live even at the latest instant and by the strictest reading
		return -1
	}
	return 0
}

func oracleC10(t *Trace, v *vset) {
	crashes := crashesOf(t)
	if len(crashes) == 0 {
		return
	}
	suffix := ""
	if len(crashes) > 1 {
		suffix = " (two crashes)"
	}
	// plans that were durably Running at some crash and had to be resumed
	resumed := map[int]bool{}
	closed := map[int]bool{}
	for _, ci := range crashes {
		if t.Res.Spec.Inc(ci.Gen + 1).NoRecovery {
			continue
		}
		for i, d := range ci.D {
			if d != nil && status(d, planPath(i)) == StRunning {
				switch agedOut(t, ci, d) {
				case -1:
					resumed[i] = true
				default:
					closed[i] = true
				}
			}
		}
	}
	lastGen := crashes[len(crashes)-1].Gen + 1
	// New must return
	newRet := false
	for _, e := range t.Events {
		if e.Kind == EvNewRet && e.Gen == lastGen {
			newRet = true
			if e.Err != "" {
				v.addf("C10", "C10.r1", "constructing the Workstream on the crashed store failed"+suffix, []int{e.Seq}, "coercion.New: %s", e.Err)
			}
		}
	}
	for _, e := range t.Panics {
		if e.Op == "New" {
			v.addf("C10", "C10.r1", "constructing the Workstream on the crashed store panicked"+suffix, []int{e.Seq}, "%s", e.Note)
			newRet = true
		}
	}
	if t.Res.Hang {
		shape := "run did not finish"
		if !newRet {
			shape = "coercion.New did not return"
		} else {
			for _, e := range t.Direct["hang"] {
				pi := PlanOfPath(e.Obj)
				if e.Plan != nil && pi >= 0 && resumed[pi] && status(e.Plan, e.Obj) == StRunning {
					shape = hangShape(t.Layouts[pi], e.Plan)
					break
				}
			}
		}
		v.addf("C10", "C10.r1", "recovery hangs: "+shape+suffix, nil, "watchdog expired after %s; parked: %s", fmtT(t.Res.SimNs), hangNote(t))
		return
	}
	for i := range t.Layouts {
		if !resumed[i] || closed[i] {
			continue
		}
		l := t.Layouts[i]
		f := t.FinalSnap(i)
		pp := planPath(i)
		if f == nil {
			v.addf("C10", "C10.r1", "resumed plan cannot be read"+suffix, nil, "plan %s", pp)
			continue
		}
		// r1/r2: terminal and consistent
		sub := &vset{}
		checkConsistency("C10", l, f, sub)
		for _, x := range sub.list {
			v.add("C10", "C10.r2", strings.TrimPrefix(x.Class, x.Rule+" ")+suffix, x.Msg)
		}
		// r2 (truthfulness over the union of the incarnations' traces)
		for _, o := range l.Objs {
			if o.Kind != KAction {
				continue
			}
			st, _ := f.Get(o.Path)
			invs := t.ByPath[o.Path]
			switch st.Status {
			case StCompleted:
				ok := false
				for _, in := range invs {
					if in.Succeeded() {
						ok = true
					}
				}
				if !ok {
					v.addf("C10", "C10.r2", "action stored Completed although no invocation of it ever succeeded ("+kindLabel(o)+")"+suffix, nil, "%s", o.Path)
				}
			case StFailed:
				bad := false
				for _, in := range invs {
					if invFailedForGood(in) {
						bad = true
					}
				}
				if !bad {
					v.addf("C10", "C10.r2", "action stored Failed although no invocation of it ever failed ("+kindLabel(o)+")"+suffix, nil, "%s", o.Path)
				}
			}
		}
		// r2 reason
		pst, _ := f.Get(pp)
		if pst.Status == StCompleted && pst.Reason != frUnknown {
			v.addf("C10", "C10.r2", "Completed plan has reason "+reasonName(pst.Reason)+suffix, nil, "plan %s", pp)
		}
		if pst.Status == StFailed {
			allowed := map[int]bool{}
			for g, r := range map[string]int{"pre": frPre, "cont": frCont, "post": frPost, "deferred": frDeferred} {
				for _, a := range l.GroupActions(pp, g) {
					for _, in := range t.ByPath[a.Path] {
						if invFailedForGood(in) {
							allowed[r] = true
						}
					}
				}
			}
			for bi := range l.Spec.Blocks {
				if status(f, blockPath(i, bi)) == StFailed {
					allowed[frBlock] = true
				}
			}
			if !allowed[pst.Reason] {
				shape := "recovered plan Failed with reason " + reasonName(pst.Reason) + " but the failing stage was " + reasonSet(allowed)
				if len(allowed) == 0 {
					shape = "recovered plan Failed with reason " + reasonName(pst.Reason) + " and no stage failed"
				}
				v.addf("C10", "C10.r2", shape+suffix, nil, "plan %s", pp)
			}
		}
		// r3: deferred checks of every entered, non-bypassed scope have run
		for _, scope := range l.Scopes() {
			if !l.HasGroup(scope, "deferred") {
				continue
			}
			lvl := "block"
			if scope == pp {
				lvl = "plan"
			}
			byp := bypassed(l, f, scope) || bypassed(l, f, pp)
			if byp || status(f, scope) == StNotStarted {
				continue
			}
			for _, a := range l.GroupActions(scope, "deferred") {
				ran := false
				perGen := map[int]int{}
				for _, run := range t.Runs(a.Path) {
					perGen[run[0].Gen]++
					// the run finished as far as the engine is concerned: its last invocation
					// returned or timed out (as opposed to being cut by a crash)
					if last := run[len(run)-1]; last.ExitSeq >= 0 || (last.Deadline > 0 && last.Ended && last.EndT == last.Deadline) {
						ran = true
					}
				}
				if !ran {
					v.addf("C10", "C10.r3", lvl+" deferred check never ran to completion in any incarnation (scope "+stName(status(f, scope))+")"+suffix, nil, "%s; %s ended %s", a.Path, scope, stName(status(f, scope)))
				}
				for g, n := range perGen {
					if n > 1 {
						v.addf("C10", "C10.r3", lvl+" deferred check ran more than once in one incarnation"+suffix, nil, "%s ran %d times in incarnation %d", a.Path, n, g)
					}
				}
			}
		}
		// r4: same outcome as the uninterrupted run and as the reference evaluator
		if t.Res.Spec.Consts {
			want, allowed := refOutcome(l.Spec)
			if i < len(t.Res.Spec.Expect) {
				if ex := t.Res.Spec.Expect[i]; ex.Status != want {
					v.addf("C10", "C10.r4", "uninterrupted run ended "+stName(ex.Status)+" but the reference evaluator says "+stName(want), nil, "plan %s", pp)
				}
			}
			if pst.Status != want && (pst.Status == StCompleted || pst.Status == StFailed) {
				v.addf("C10", "C10.r4", "recovered plan ended "+stName(pst.Status)+" but the uninterrupted outcome is "+stName(want)+suffix, nil, "plan %s: reason %s; reference allows %s", pp, reasonName(pst.Reason), reasonSet(allowed))
			} else if pst.Status == StFailed && !allowed[pst.Reason] {
				v.addf("C10", "C10.r4", "recovered plan Failed with reason "+reasonName(pst.Reason)+" but the uninterrupted run can only fail with "+reasonSet(allowed)+suffix, nil, "plan %s", pp)
			}
		}
	}
}

func oracleC11(t *Trace, v *vset) {
	for _, ci := range crashesOf(t) {
		if ci.RestartT < 0 {
			continue
		}
		inc := t.Res.Spec.Inc(ci.Gen + 1)
		crashedAgain := false
		for _, c2 := range t.Crashes {
			if t.Events[c2].Gen == ci.Gen+1 {
				crashedAgain = true
			}
		}
		for i, d := range ci.D {
			if d == nil {
				continue
			}
			pp := planPath(i)
			stD := status(d, pp)
			var invs []*Inv
			for _, in := range t.invsUnder(pp, nil) {
				if in.Gen == ci.Gen+1 {
					invs = append(invs, in)
				}
			}
			var writes []*WriteRec
			for _, w := range t.Writes {
				if w.Gen == ci.Gen+1 && (w.Path == pp || under(w.Path, pp)) {
					writes = append(writes, w)
				}
			}
			final := ci.Final[i]
			untouched := func(rule, what string) {
				if len(invs) > 0 {
					v.addf("C11", rule, what+" but a plugin was invoked for it after the restart", []int{invs[0].EnterSeq}, "%s: %s invoked", pp, invs[0].Path)
				}
				if len(writes) > 0 {
					v.addf("C11", rule, what+" but it was written after the restart", []int{writes[0].Seq}, "%s: %s %s", pp, writes[0].Op, writes[0].Path)
				}
				if eq, where := d.Equal(final); !eq {
					v.addf("C11", rule, what+" but its stored state changed after the restart", nil, "%s differs at %s", pp, where)
				}
			}
			switch {
			case inc.NoRecovery:
				untouched("C11.r4", "recovery disabled")
			case stD != StRunning:
				untouched("C11.r1", "plan was "+stName(stD)+" at start-up")
			default:
				switch agedOut(t, ci, d) {
				case 1:
					// r3: closed as stale
					if len(invs) > 0 {
						v.addf("C11", "C11.r3", "stale Running plan: a plugin was invoked after the restart", []int{invs[0].EnterSeq}, "%s: %s invoked", pp, invs[0].Path)
					}
					if final != nil && !t.Res.Hang {
						fst, _ := final.Get(pp)
						if fst.Status != StFailed || fst.Reason != frExceed {
							v.addf("C11", "C11.r3", "stale Running plan not closed as Failed/ExceedRecovery (is "+stName(fst.Status)+"/"+reasonName(fst.Reason)+")", nil, "%s", pp)
						} else if shape := runningShape(t.Layouts[i], final); shape != "" {
							for _, k := range strings.Split(shape, ", ") {
								v.addf("C11", "C11.r3", "stale plan closed but a "+k+" is left Running", nil, "%s: %s", pp, shape)
							}
						}
					}
				case -1:
					// r2: resumed
					if final != nil && !t.Res.Hang && !crashedAgain {
						fst, _ := final.Get(pp)
						if fst.Reason == frExceed {
							v.addf("C11", "C11.r2", "live Running plan closed as ExceedRecovery", nil, "%s", pp)
						} else if fst.Status != StCompleted && fst.Status != StFailed {
							v.addf("C11", "C11.r2", "live Running plan not driven to a terminal state (is "+stName(fst.Status)+")", nil, "%s", pp)
						}
					}
				}
			}
		}
	}
}

// oracleC15r5: every plan durably Running at a crash is found again by the
// restarted process (it is resumed or closed; it is never silently ignored).
// Checked through its effect: a non-stale Running plan that is neither written
// nor invoked after a restart with recovery enabled was not found by the search.
func oracleC15r5(t *Trace, v *vset) {
	for _, ci := range crashesOf(t) {
		if ci.RestartT < 0 || t.Res.Spec.Inc(ci.Gen+1).NoRecovery || t.Res.Hang {
			continue
		}
		crashedAgain := false
		for _, c2 := range t.Crashes {
			if t.Events[c2].Gen == ci.Gen+1 {
				crashedAgain = true
			}
		}
		if crashedAgain {
			continue
		}
		for i, d := range ci.D {
			if d == nil || status(d, planPath(i)) != StRunning {
				continue
			}
			pp := planPath(i)
			touched := false
			for _, w := range t.Writes {
				if w.Gen == ci.Gen+1 && (w.Path == pp || under(w.Path, pp)) {
					touched = true
				}
			}
			if !touched {
				v.addf("C15", "C15.r5", "plan durably Running at the crash was not found by the restarted process", []int{ci.Seq}, "%s: no write after the restart", pp)
			}
		}
	}
}

// EvaluateCrash runs the E2 oracles (and, as cross-checks that are not claimed
// for C01-C08, nothing else) over one run.
func EvaluateCrash(res *RunResult) []Violation {
	t := BuildTrace(res)
	v := &vset{}
	if len(t.Crashes) == 0 {
		// the uninterrupted baseline: the E1 oracles apply
		return EvaluateExec(res)
	}
	oracleC09(t, v)
	oracleC09same(t, v)
	oracleC10(t, v)
	oracleC11(t, v)
	oracleC15r5(t, v)
	for _, e := range t.Panics {
		if e.Op != "New" {
			v.addf("C10", "C10.r1", "panic during recovery in "+e.Op, []int{e.Seq}, "%s", e.Note)
		}
	}
	sortViolations(v.list)
	return v.list
}

func crashProbes(t *Trace, probes map[string]int) {
	add := func(k string) { probes[k]++ }
	cs := crashesOf(t)
	for k, ci := range cs {
		running := false
		for i, d := range ci.D {
			if d != nil && status(d, planPath(i)) == StRunning {
				running = true
				if shape := runningShape(t.Layouts[i], d); strings.Contains(shape, "sequence action") {
					add("crash with a sequence action durably Running")
				}
				for _, st := range d.States {
					if st.Status == StRunning && len(st.Attempts) > 0 {
						add("crash with a Running action that has durable attempts")
						break
					}
				}
			}
		}
		if running {
			add("crash left a plan durably Running")
		} else {
			add("crash with no plan Running (before the first or after the last write)")
		}
		if k > 0 {
			add("second crash during recovery")
		}
	}
	for _, in := range t.Invs {
		if in.Gen > 0 && in.Obj != nil && in.Obj.IsSeqAction() {
			add("sequence action invoked by a recovering process")
			break
		}
	}
	if t.Res.Hang {
		add("hang")
	}
	_ = fmt.Sprint
}

func init() {
	engines["crash"] = &engine{
		gen:   GenCrashBase,
		drive: driveCrash,
		eval:  EvaluateCrash,
		post:  crashProbes,
	}
}
