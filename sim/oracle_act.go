package sim

import (
	"fmt"
	"strings"
	"time"
)

// Oracles C05 (attempts), C06 (bypass / pre-check gating), C07 (continuous and
// deferred checks), C08 (persist before act), C12 (at most one execution, API
// misuse).

// expectedAttempt derives what attempt the engine must have recorded for an
// invocation, from what the plugin did.
type expAttempt struct {
	timeout   bool
	hasResp   bool
	hasErr    bool
	permanent bool
	errMsg    string // "" = not compared
	resp      string
}

func expectAttempt(in *Inv) expAttempt {
	if in.CtxDone || in.ExitSeq < 0 {
		return expAttempt{timeout: true, hasErr: true}
	}
	switch in.Outcome {
	case OK:
		typ := "sim.Resp"
		if in.Obj != nil && in.Obj.Spec != nil && in.Obj.Spec.Ptr {
			typ = "*sim.Resp"
		}
		return expAttempt{hasResp: true, resp: fmt.Sprintf("%s:{\"Path\":%q,\"Inv\":%d,\"Note\":\"resp\"}", typ, in.Path, in.K)}
	case Transient:
		return expAttempt{hasErr: true, errMsg: fmt.Sprintf("transient %s #%d", in.Path, in.K)}
	case Permanent:
		return expAttempt{hasErr: true, permanent: true, errMsg: fmt.Sprintf("permanent %s #%d", in.Path, in.K)}
	case WrongType:
		return expAttempt{hasErr: true, permanent: true}
	}
	return expAttempt{timeout: true, hasErr: true}
}

func attemptMatches(in *Inv, a AttSnap, timeoutNs int64) string {
	e := expectAttempt(in)
	switch {
	case e.hasResp:
		if a.Err != nil {
			return "successful invocation recorded with an error"
		}
		if a.Resp != e.resp {
			return "recorded response differs from the one the plugin returned"
		}
	case e.timeout:
		if a.Err == nil {
			return "timed-out invocation recorded without an error"
		}
		if a.Err.Permanent {
			return "timed-out invocation recorded as a permanent error"
		}
		if a.Resp != "" {
			return "timed-out invocation recorded with a response"
		}
		// the statement asks for start<=end only; an attempt recorded as a timeout
		// cannot, however, have lasted less than the timeout (clock resolution up to 1 s allowed)
		if a.End-a.Start < timeoutNs-int64(time.Second) {
			return "timed-out attempt recorded shorter than the action timeout"
		}
	default:
		if a.Err == nil {
			return "failed invocation recorded without an error"
		}
		if a.Err.Permanent != e.permanent {
			return "permanent flag of the recorded error differs from the plugin's"
		}
		if a.Resp != "" {
			return "failed invocation recorded with a response"
		}
		if e.errMsg != "" {
			if a.Err.Msg != e.errMsg {
				return "recorded error message differs from the plugin's"
			}
			if !errEqual(a.Err, snapErr(scriptedError(in.Outcome, in.Path, in.K))) {
				return "recorded error code / wrapped chain differs from the plugin's"
			}
		}
	}
	if a.Start > a.End {
		return "attempt start > end"
	}
	// The attempt's times must be those of this invocation. The statement fixes no
	// clock resolution, so a second of slack is allowed on either side (timestamps
	// truncated to milliseconds or seconds are fine); times of another invocation or
	// an End taken long before the plugin returned are not.
	const tsSlack = int64(time.Second)
	if a.Start > in.EnterT+epochUnixNs+tsSlack || a.End < in.EndT+epochUnixNs-tsSlack {
		return "attempt times do not enclose the invocation"
	}
	return ""
}

func oracleC05(t *Trace, v *vset) {
	for _, l := range t.Layouts {
		f := t.FinalSnap(l.Plan)
		for _, o := range l.Objs {
			if o.Kind != KAction {
				continue
			}
			runs := t.Runs(o.Path)
			retries := o.Spec.Retries
			if retries < 0 {
				retries = 0
			}
			kl := kindLabel(o)
			for _, run := range runs {
				if len(run) > retries+1 {
					v.addf("C05", "C05.r1", "more than Retries+1 invocations ("+kl+")", []int{run[len(run)-1].EnterSeq}, "%s: %d invocations in one run, Retries=%d", o.Path, len(run), retries)
				}
				for k := 0; k+1 < len(run); k++ {
					if run[k].Succeeded() {
						v.addf("C05", "C05.r2", "invoked again after a successful attempt ("+kl+")", []int{run[k].EnterSeq, run[k+1].EnterSeq}, "%s invoked again after invocation #%d succeeded", o.Path, run[k].K)
					}
					if run[k].PermanentFail() {
						v.addf("C05", "C05.r2", "invoked again after a permanent error ("+kl+")", []int{run[k].EnterSeq, run[k+1].EnterSeq}, "%s invoked again after invocation #%d failed permanently (%s)", o.Path, run[k].K, run[k].Outcome)
					}
					if run[k].End2 >= run[k+1].Enter2 {
						v.addf("C05", "C05.r2", "attempts of one action overlap ("+kl+")", []int{run[k].EnterSeq, run[k+1].EnterSeq}, "%s attempt #%d entered before #%d ended", o.Path, run[k+1].K, run[k].K)
					}
				}
				// r4: the plugin's context is cancelled no later than the timeout instant
				for _, in := range run {
					if in.Outcome == Overrun && in.ExitSeq >= 0 && !in.CtxDone {
						v.addf("C05", "C05.r4", "overrunning plugin returned without its context being cancelled", []int{in.ExitSeq}, "%s #%d", o.Path, in.K)
					}
					if in.Deadline > 0 && in.Deadline-in.EnterT > int64(o.Spec.EffTimeout()) {
						v.addf("C05", "C05.r4", "plugin context deadline later than the action timeout", []int{in.EnterSeq}, "%s #%d: deadline %s after entry, timeout %s", o.Path, in.K, fmtT(in.Deadline-in.EnterT), o.Spec.EffTimeout())
					}
					if in.Deadline == 0 {
						v.addf("C05", "C05.r4", "plugin invoked without a deadline", []int{in.EnterSeq}, "%s #%d", o.Path, in.K)
					}
				}
			}
			// r3/r5: the stored attempts of the last run are the invocations of that run
			if f == nil || len(runs) == 0 || t.Res.Hang {
				continue
			}
			last := runs[len(runs)-1]
			if !last[len(last)-1].Ended || t.Res.Incs != 1 {
				continue
			}
			st, ok := f.Get(o.Path)
			if !ok {
				continue
			}
			if len(st.Attempts) != len(last) {
				v.addf("C05", "C05.r3", fmt.Sprintf("stored attempts != invocations (%s)", kl), nil, "%s: %d attempts stored, %d invocations in its last run", o.Path, len(st.Attempts), len(last))
				continue
			}
			for k, in := range last {
				if msg := attemptMatches(in, st.Attempts[k], int64(o.Spec.EffTimeout())); msg != "" {
					rule := "C05.r3"
					if in.CtxDone || in.ExitSeq < 0 {
						rule = "C05.r4"
					} else if in.Outcome == WrongType {
						rule = "C05.r5"
					}
					v.addf("C05", rule, msg+" ("+kl+")", []int{in.EnterSeq}, "%s attempt %d (invocation #%d, %s): %s", o.Path, k, in.K, in.Outcome, msg)
				}
				if k > 0 && st.Attempts[k-1].End > st.Attempts[k].Start {
					v.addf("C05", "C05.r3", "attempt starts before the previous one ended ("+kl+")", nil, "%s attempt %d", o.Path, k)
				}
			}
		}
	}
}

// groupRunFailed: did the k-th run (0-based) of any action of the group fail?
func groupFirstRunFailed(t *Trace, l *Layout, scope, group string) (failed bool, ran bool) {
	for _, a := range l.GroupActions(scope, group) {
		runs := t.Runs(a.Path)
		if len(runs) == 0 {
			continue
		}
		ran = true
		if !runOK(runs[0]) {
			failed = true
		}
	}
	return
}

func groupAllOK(t *Trace, l *Layout, scope, group string) bool {
	acts := l.GroupActions(scope, group)
	if len(acts) == 0 {
		return false
	}
	for _, a := range acts {
		runs := t.Runs(a.Path)
		if len(runs) == 0 || !runOK(runs[0]) {
			return false
		}
	}
	return true
}

func oracleC06(t *Trace, v *vset) {
	for _, l := range t.Layouts {
		f := t.FinalSnap(l.Plan)
		pp := planPath(l.Plan)
		for _, scope := range l.Scopes() {
			lvl := "block"
			if scope == pp {
				lvl = "plan"
			}
			isSeqOfScope := func(in *Inv) bool {
				return in.Obj.IsSeqAction() && (scope == pp || in.Obj.Scope() == scope)
			}
			seqInvs := t.invsUnder(scope, isSeqOfScope)
			bypassRan := len(t.invsUnder(groupPath(scope, "bypass"), nil)) > 0
			if l.HasGroup(scope, "bypass") && bypassRan {
				byp := groupPath(scope, "bypass")
				others := t.invsUnder(scope, func(in *Inv) bool { return !under(in.Path, byp) })
				if groupAllOK(t, l, scope, "bypass") {
					// r1: nothing else runs, scope Completed
					if len(others) > 0 {
						v.addf("C06", "C06.r1", lvl+" bypass succeeded but "+kindOfInv(others[0])+" of the scope was invoked", []int{others[0].EnterSeq}, "%s invoked although all bypass checks of %s succeeded", others[0].Path, scope)
					}
					if f != nil && !t.Res.Hang && status(f, scope) != StCompleted {
						v.addf("C06", "C06.r1", lvl+" bypass succeeded but the scope ended "+stName(status(f, scope)), nil, "%s ended %s", scope, stName(status(f, scope)))
					}
				} else if allBypassEnded(t, l, scope) {
					// r2: the scope runs normally; a bypass failure alone never fails it
					if f != nil && !t.Res.Hang && status(f, scope) == StFailed && !anythingElseFailed(t, l, f, scope) {
						v.addf("C06", "C06.r2", lvl+" failed although only its bypass check failed", nil, "%s ended Failed; nothing but the bypass check failed", scope)
					}
					if f != nil && !t.Res.Hang && status(f, scope) == StCompleted && len(others) == 0 {
						v.addf("C06", "C06.r2", lvl+" Completed without running anything after a failed bypass", nil, "%s Completed but nothing besides the bypass ran", scope)
					}
				}
			}
			// r3: failing pre-check => no sequence action of the scope, scope Failed
			if failed, ran := groupFirstRunFailed(t, l, scope, "pre"); ran && failed {
				if len(seqInvs) > 0 {
					v.addf("C06", "C06.r3", lvl+" pre-check failed but a sequence action was invoked", []int{seqInvs[0].EnterSeq}, "%s invoked although a pre-check of %s failed", seqInvs[0].Path, scope)
				}
				if f != nil && !t.Res.Hang && status(f, scope) != StFailed {
					v.addf("C06", "C06.r3", lvl+" pre-check failed but the scope ended "+stName(status(f, scope)), nil, "%s ended %s", scope, stName(status(f, scope)))
				}
			}
			// r4: failing initial run of the continuous check
			if failed, ran := groupFirstRunFailed(t, l, scope, "cont"); ran && failed {
				pre := "no PreChecks"
				if l.HasGroup(scope, "pre") {
					pre = "with PreChecks"
				}
				if len(seqInvs) > 0 {
					v.addf("C06", "C06.r4", lvl+" continuous check failed its initial run but a sequence action was invoked ("+pre+")", []int{seqInvs[0].EnterSeq}, "%s invoked although the first run of a continuous check of %s failed", seqInvs[0].Path, scope)
				}
				if f != nil && !t.Res.Hang && status(f, scope) != StFailed {
					v.addf("C06", "C06.r4", lvl+" continuous check failed its initial run but the scope ended "+stName(status(f, scope))+" ("+pre+")", nil, "%s ended %s", scope, stName(status(f, scope)))
				}
			}
		}
	}
	if t.Res.Hang {
		// r5: a failing pre/cont gate must not hang Wait
		for _, e := range t.Direct["hang"] {
			pi := PlanOfPath(e.Obj)
			if pi < 0 || e.Plan == nil {
				continue
			}
			l := t.Layouts[pi]
			for _, scope := range l.Scopes() {
				pf, pr := groupFirstRunFailed(t, l, scope, "pre")
				cf, cr := groupFirstRunFailed(t, l, scope, "cont")
				if (pr && pf) || (cr && cf) {
					v.addf("C06", "C06.r5", "hang after a failed gate: "+hangShape(l, e.Plan), nil, "run hung; gate of %s failed", scope)
				}
			}
		}
	}
}

func allBypassEnded(t *Trace, l *Layout, scope string) bool {
	for _, a := range l.GroupActions(scope, "bypass") {
		runs := t.Runs(a.Path)
		if len(runs) == 0 {
			return false
		}
		last := runs[0][len(runs[0])-1]
		if !last.Ended {
			return false
		}
	}
	return true
}

// anythingElseFailed: does the trace / final plan show any failure in scope
// other than its bypass group?
func anythingElseFailed(t *Trace, l *Layout, f *PlanSnap, scope string) bool {
	pp := planPath(l.Plan)
	byp := groupPath(scope, "bypass")
	for _, in := range t.invsUnder(scope, func(in *Inv) bool { return !under(in.Path, byp) }) {
		if in.FailedInv() {
			return true
		}
	}
	if scope != pp {
		// a block is also failed by the plan's continuous check
		for _, a := range l.GroupActions(pp, "cont") {
			if anyRunFailed(t, a.Path) {
				return true
			}
		}
	}
	return false
}

// window returns the doubled positions between which scope executes sequences.
func seqWindow(t *Trace, l *Layout, scope string) (from2, to2 int, fromT, toT int64, ok bool) {
	pp := planPath(l.Plan)
	invs := t.invsUnder(scope, func(in *Inv) bool { return in.Obj.IsSeqAction() && (scope == pp || in.Obj.Scope() == scope) })
	if len(invs) == 0 {
		return
	}
	from2, fromT = invs[0].Enter2, invs[0].EnterT
	for _, in := range invs {
		if !in.Ended {
			return 0, 0, 0, 0, false
		}
		if in.End2 > to2 {
			to2, toT = in.End2, in.EndT
		}
	}
	return from2, to2, fromT, toT, true
}

func oracleC07(t *Trace, v *vset) {
	for _, l := range t.Layouts {
		f := t.FinalSnap(l.Plan)
		pp := planPath(l.Plan)
		for _, scope := range l.Scopes() {
			lvl := "block"
			if scope == pp {
				lvl = "plan"
			}
			// r1: a failed run of a continuous check is never lost
			if l.HasGroup(scope, "cont") && f != nil && !t.Res.Hang {
				failedRun := false
				for _, a := range l.GroupActions(scope, "cont") {
					if anyRunFailed(t, a.Path) {
						failedRun = true
					}
				}
				if failedRun {
					if st := status(f, scope); st != StFailed {
						v.addf("C07", "C07.r1", lvl+" continuous check failed but the scope ended "+stName(st), nil, "%s ended %s although a run of its continuous check failed", scope, stName(st))
					}
					if scope == pp {
						pst, _ := f.Get(pp)
						if pst.Status == StFailed && pst.Reason != frCont {
							// accepted if another stage failed too (C04.r7 checks membership)
							other := false
							for _, g := range []string{"pre", "post", "deferred"} {
								for _, a := range l.GroupActions(pp, g) {
									if anyRunFailed(t, a.Path) {
										other = true
									}
								}
							}
							for bi := range l.Spec.Blocks {
								if status(f, blockPath(l.Plan, bi)) == StFailed {
									other = true
								}
							}
							if !other {
								v.addf("C07", "C07.r1", "plan continuous check failed alone but the reason is "+reasonName(pst.Reason), nil, "plan %s reason %s", pp, reasonName(pst.Reason))
							}
						}
					}
				}
			}
			// r2: the continuous check keeps being re-run while the scope executes sequences
			if l.HasGroup(scope, "cont") {
				oracleC07r2(t, l, scope, lvl, v)
			}
			// r3: deferred checks run exactly once iff the scope was entered and not bypassed
			if l.HasGroup(scope, "deferred") && !t.Res.Hang && f != nil {
				byp := bypassed(l, f, scope) || (scope != pp && bypassed(l, f, pp))
				scopeSt := status(f, scope)
				enteredScope := scopeSt != StNotStarted
				for _, a := range l.GroupActions(scope, "deferred") {
					runs := t.Runs(a.Path)
					switch {
					case byp && len(runs) > 0:
						v.addf("C07", "C07.r3", lvl+" deferred check ran although the scope was bypassed", []int{runs[0][0].EnterSeq}, "%s ran; %s was bypassed", a.Path, scope)
					case !byp && enteredScope && len(runs) == 0:
						v.addf("C07", "C07.r3", lvl+" deferred check never ran although the scope was entered (scope "+stName(scopeSt)+")", nil, "%s never ran; %s ended %s", a.Path, scope, stName(scopeSt))
					case len(runs) > 1:
						v.addf("C07", "C07.r3", lvl+" deferred check ran more than once", []int{runs[1][0].EnterSeq}, "%s ran %d times", a.Path, len(runs))
					case !enteredScope && len(runs) > 0:
						v.addf("C07", "C07.r5", lvl+" deferred check ran although the scope was never entered", []int{runs[0][0].EnterSeq}, "%s ran; %s is %s", a.Path, scope, stName(scopeSt))
					}
				}
				// r4: a failing deferred group fails the scope
				for _, a := range l.GroupActions(scope, "deferred") {
					if anyRunFailed(t, a.Path) && status(f, scope) != StFailed {
						v.addf("C07", "C07.r4", lvl+" deferred check failed but the scope ended "+stName(status(f, scope)), nil, "%s failed; %s ended %s", a.Path, scope, stName(status(f, scope)))
					}
				}
			}
			// r5: nothing of a scope that was never entered runs
			if scope != pp && f != nil && !t.Res.Hang {
				if st := status(f, scope); st == StNotStarted {
					if invs := t.invsUnder(scope, nil); len(invs) > 0 {
						v.addf("C07", "C07.r5", "action of a never-entered block was invoked", []int{invs[0].EnterSeq}, "%s invoked; block %s is NotStarted", invs[0].Path, scope)
					}
				}
			}
		}
	}
}

// oracleC07r2: inside the window in which the scope executes sequences and as
// long as no run has failed, the gap between the end of one run of the
// continuous check and the start of the next never exceeds 2*Delay + storage time
// (+ injected delays, which are excluded by only checking runs without delay faults).
func oracleC07r2(t *Trace, l *Layout, scope, lvl string, v *vset) {
	if t.Res.Faults["delay"] > 0 {
		return // delay faults stretch gaps legitimately; covered by the fault-free configurations
	}
	from2, to2, fromT, toT, ok := seqWindow(t, l, scope)
	if !ok {
		return
	}
	_ = from2
	_ = to2
	cs := l.ByPath[groupPath(scope, "cont")].Checks
	acts := l.GroupActions(scope, "cont")
	// The statement only says "keeps being re-run": the bound is deliberately loose
	// (twice the configured Delay plus the simulated duration of the writes a run
	// makes), so that it encodes neither the exact cadence of the loop nor storage time.
	delay := 2 * int64(cs.DelayMs) * 1e6
	if delay <= 0 {
		delay = 1
	}
	delay += int64(8+4*len(acts)) * t.Res.Spec.Policy.WriteLatUs * 1000
	// group-level runs: run k of the group = k-th run of each action (they run in parallel)
	type grun struct {
		startT, endT int64
		failed, open bool
		seq          int
	}
	var runs []grun
	nruns := -1
	for _, a := range acts {
		r := t.Runs(a.Path)
		if nruns < 0 || len(r) < nruns {
			nruns = len(r)
		}
	}
	for k := 0; k < nruns; k++ {
		g := grun{startT: 1 << 62}
		for _, a := range acts {
			r := t.Runs(a.Path)[k]
			if r[0].EnterT < g.startT {
				g.startT, g.seq = r[0].EnterT, r[0].EnterSeq
			}
			lastInv := r[len(r)-1]
			if !lastInv.Ended {
				g.open = true
			} else if lastInv.EndT > g.endT {
				g.endT = lastInv.EndT
			}
			if lastInv.FailedInv() {
				g.failed = true
			}
		}
		runs = append(runs, g)
	}
	// retries inside a run add back-off time to the run, not to the gap, so only
	// gaps between runs are measured.
	prevEnd := int64(-1)
	for _, g := range runs {
		if g.open {
			return
		}
		if prevEnd >= 0 && prevEnd >= fromT {
			// gap (prevEnd, g.startT) must be <= delay if it lies inside the window
			if g.startT-prevEnd > delay && prevEnd+delay < toT {
				v.addf("C07", "C07.r2", lvl+" continuous check not re-run within twice its Delay while sequences execute", []int{g.seq}, "%s: next run started %s after the previous one ended (Delay %s)", groupPath(scope, "cont"), fmtT(g.startT-prevEnd), fmtT(delay))
				return
			}
		}
		if g.failed {
			return
		}
		prevEnd = g.endT
	}
	// after the last run: it must have been followed by another one if the window
	// stayed open for longer than Delay
	if len(runs) > 0 {
		last := runs[len(runs)-1]
		if !last.failed && last.endT >= fromT && last.endT+delay < toT {
			v.addf("C07", "C07.r2", lvl+" continuous check stopped being re-run while sequences execute", []int{last.seq}, "%s: last run ended at %s, sequences executed until %s (Delay %s, %d runs)", groupPath(scope, "cont"), fmtT(last.endT), fmtT(toT), fmtT(delay), len(runs))
		}
	} else if toT-fromT > delay {
		v.addf("C07", "C07.r2", lvl+" continuous check never ran while sequences executed", nil, "%s: no run; sequences executed for %s (Delay %s)", groupPath(scope, "cont"), fmtT(toT-fromT), fmtT(delay))
	}
}

func oracleC08(t *Trace, v *vset) {
	// latest applied write per object, replayed in event order together with plugin entries
	latest := map[string]*WriteRec{}
	wi := 0
	// invocations sorted by enter
	invs := append([]*Inv(nil), t.Invs...)
	for _, in := range invs {
		for wi < len(t.Writes) && t.Writes[wi].Seq < in.EnterSeq {
			latest[t.Writes[wi].Path] = t.Writes[wi]
			wi++
		}
		o := in.Obj
		if o == nil {
			continue
		}
		kl := kindLabel(o)
		lw := latest[in.Path]
		runs := t.Runs(in.Path)
		var run []*Inv
		for _, r := range runs {
			if r[0].Run == in.Run {
				run = r
			}
		}
		pos := 0
		for k, x := range run {
			if x == in {
				pos = k
			}
		}
		// r1: durably Running before the plugin is invoked
		if lw == nil || lw.St.Status != StRunning {
			got := "never written"
			if lw != nil {
				got = stName(lw.St.Status)
			}
			v.addf("C08", "C08.r1", "plugin invoked while the action is not durably Running ("+kl+")", []int{in.EnterSeq}, "%s #%d entered; latest applied write: %s", in.Path, in.K, got)
		} else if lw.Gen == in.Gen {
			// r2: each earlier attempt of this run is durable before the next attempt
			if len(lw.St.Attempts) != pos {
				v.addf("C08", "C08.r2", "attempt begins before the previous attempt's result is durable ("+kl+")", []int{lw.Seq, in.EnterSeq}, "%s #%d is attempt %d of its run but the store holds %d attempts", in.Path, in.K, pos+1, len(lw.St.Attempts))
			} else {
				for k := 0; k < pos; k++ {
					if msg := attemptMatches(run[k], lw.St.Attempts[k], int64(o.Spec.EffTimeout())); msg != "" {
						v.addf("C08", "C08.r2", "durable attempt differs from what the plugin returned ("+kl+")", []int{lw.Seq, in.EnterSeq}, "%s attempt %d: %s", in.Path, k, msg)
					}
				}
			}
		}
		// r2b: the previous action of the sequence is durably Completed
		if o.IsSeqAction() && o.Idx > 0 && pos == 0 {
			prev := fmt.Sprintf("%s/a%d", o.Parent, o.Idx-1)
			if pw := latest[prev]; pw == nil || pw.St.Status != StCompleted {
				got := "never written"
				if pw != nil {
					got = stName(pw.St.Status)
				}
				v.addf("C08", "C08.r2", "next action begins before the previous action is durably Completed", []int{in.EnterSeq}, "%s entered; %s durably %s", in.Path, prev, got)
			}
		}
	}
	// r3: the terminal plan is durable before a waiter is released
	for _, wa := range startedWaits(t) {
		pp := planPath(wa.Plan)
		for _, e := range t.Direct["D0"] {
			if e.Obj == pp && e.Seq > wa.RetSeq && e.Gen == wa.Gen {
				st := status(e.Plan, pp)
				if st != StCompleted && st != StFailed {
					v.addf("C08", "C08.r3", "waiter released before the terminal plan state was durable", []int{wa.RetSeq}, "store holds %s for %s when Wait returned", stName(st), pp)
				}
				break
			}
		}
		for _, w := range t.Writes {
			if w.Seq > wa.RetSeq && w.Gen == wa.Gen && (w.Path == pp || under(w.Path, pp)) {
				if rewritesSame(t, w) {
					continue // nothing new becomes durable after the release
				}
				kl := "object"
				if o := t.Obj(w.Path); o != nil {
					kl = kindLabel(o)
				}
				v.addf("C08", "C08.r3", "storage write after the waiter was released ("+kl+")", []int{wa.RetSeq, w.Seq}, "%s %s", w.Op, w.Path)
				break
			}
		}
	}
	// r4: no visible regress within one process lifetime
	type key struct {
		path string
		gen  int
	}
	term := map[key]*WriteRec{}
	for _, w := range t.Writes {
		o := t.Obj(w.Path)
		if o == nil || !(o.Kind == KBlock || o.Kind == KSeq || o.IsSeqAction()) {
			continue
		}
		k := key{w.Path, w.Gen}
		if prev := term[k]; prev != nil && prev.St.Status != w.St.Status {
			v.addf("C08", "C08.r4", kindLabel(o)+" written "+stName(w.St.Status)+" after it was durably "+stName(prev.St.Status), []int{prev.Seq, w.Seq}, "%s", w.Path)
		}
		if w.St.Status == StCompleted || w.St.Status == StFailed {
			if term[k] == nil {
				term[k] = w
			}
		}
	}
	// the same on what pollers actually read
	type okey struct {
		client, gen int
		path        string
	}
	seen := map[okey]int{}
	obs := append([]*APIRec(nil), t.Status...)
	for _, a := range t.APIs {
		if (a.Op == "plan" || a.Op == "wait") && a.Snap != nil {
			obs = append(obs, a)
		}
	}
	// observations in event order
	sortAPIs(obs)
	for _, a := range obs {
		if a.Snap == nil || a.Plan < 0 || a.Plan >= len(t.Layouts) {
			continue
		}
		for _, o := range t.Layouts[a.Plan].Objs {
			if !(o.Kind == KBlock || o.Kind == KSeq || o.IsSeqAction()) {
				continue
			}
			st := status(a.Snap, o.Path)
			// per reader: with slow replies two readers' results can arrive in another order than they were read
			k := okey{a.Client, a.Gen, o.Path}
			if prev, ok := seen[k]; ok && prev != st {
				v.addf("C08", "C08.r4", "reader saw a "+kindLabel(o)+" go from "+stName(prev)+" to "+stName(st), []int{a.RetSeq}, "%s read as %s after having been read as %s", o.Path, stName(st), stName(prev))
			}
			if st == StCompleted || st == StFailed {
				if _, ok := seen[k]; !ok {
					seen[k] = st
				}
			}
		}
	}
}

func sortAPIs(a []*APIRec) {
	for i := 1; i < len(a); i++ {
		for j := i; j > 0 && a[j].RetSeq < a[j-1].RetSeq; j-- {
			a[j], a[j-1] = a[j-1], a[j]
		}
	}
}

func oracleC12(t *Trace, v *vset) {
	// r5: panics
	for _, e := range t.Panics {
		first := strings.SplitN(e.Note, "\n", 2)[0]
		v.addf("C12", "C12.r5", "panic in "+e.Op+": "+first, []int{e.Seq}, "%s", e.Note)
	}
	for _, l := range t.Layouts {
		pp := planPath(l.Plan)
		var starts []*APIRec
		for _, a := range t.APIs {
			if a.Op == "start" && a.Plan == l.Plan {
				starts = append(starts, a)
			}
		}
		// r1: at most one execution: every sequence action has at most one run, and
		// every check group other than continuous ones runs at most once
		for _, o := range l.Objs {
			if o.Kind != KAction || o.Group == "cont" {
				continue
			}
			runsByGen := map[int]int{}
			for _, r := range t.Runs(o.Path) {
				runsByGen[r[0].Gen]++
			}
			for g, n := range runsByGen {
				if n > 1 && g == 0 {
					v.addf("C12", "C12.r1", "plan executed more than once ("+kindLabel(o)+" ran twice)", []int{t.Runs(o.Path)[1][0].EnterSeq}, "%s ran %d times; Start calls: %d", o.Path, n, len(starts))
				}
			}
		}
		okStarts := 0
		var firstOK *APIRec
		for _, s := range starts {
			if s.RetSeq >= 0 && s.Err == "" {
				okStarts++
				if firstOK == nil || s.RetSeq < firstOK.RetSeq {
					firstOK = s
				}
			}
		}
		// r2: a Start issued after another Start of the plan returned nil is rejected
		for _, s := range starts {
			if firstOK != nil && s != firstOK && s.CallSeq > firstOK.RetSeq && s.RetSeq >= 0 && s.Err == "" {
				v.addf("C12", "C12.r2", "Start accepted after an earlier Start of the plan had returned nil", []int{firstOK.RetSeq, s.CallSeq}, "second Start(%s) by client %d returned nil", pp, s.Client)
			}
		}
		// r3: of overlapping Starts at most one returns nil
		if okStarts > 1 {
			overl := false
			for _, s := range starts {
				if s != firstOK && s.Err == "" && s.RetSeq >= 0 && s.CallSeq < firstOK.RetSeq {
					overl = true
				}
			}
			if overl {
				v.addf("C12", "C12.r3", "concurrent Start calls both returned nil", nil, "%d Start(%s) calls returned nil", okStarts, pp)
			}
		}
		// r2: a rejected Start has no side effects: no write and no invocation that
		// belongs to no accepted Start. Without any accepted Start nothing may run.
		if okStarts == 0 {
			if invs := t.invsUnder(pp, nil); len(invs) > 0 {
				v.addf("C12", "C12.r2", "plan executed although no Start was accepted", []int{invs[0].EnterSeq}, "%s invoked", invs[0].Path)
			}
			for _, w := range t.Writes {
				if (w.Path == pp || under(w.Path, pp)) && w.Op != "Create" {
					v.addf("C12", "C12.r2", "plan written although no Start was accepted", []int{w.Seq}, "%s %s", w.Op, w.Path)
					break
				}
			}
		}
		// r4: submission older than maxSubmit cannot be started; younger can
		maxSub := int64(30 * 60 * 1e9)
		if is := t.Res.Spec.Inc(0); is.MaxSubmitMs > 0 {
			maxSub = is.MaxSubmitMs * 1e6
		}
		var submitT int64 = -1
		for _, a := range t.APIs {
			if a.Op == "submit" && a.Plan == l.Plan && a.RetSeq >= 0 && a.Err == "" && a.Snap != nil {
				submitT = a.Snap.Submit - epochUnixNs
			}
		}
		if submitT >= 0 {
			for _, s := range starts {
				if s.RetSeq < 0 {
					continue
				}
				// the engine reads the clock somewhere between call and return
				if s.CallT-submitT > maxSub && s.Err == "" {
					v.addf("C12", "C12.r4", "stale plan started", []int{s.CallSeq}, "Start(%s) %s after submission accepted (max %s)", pp, fmtT(s.CallT-submitT), fmtT(maxSub))
				}
				if s.RetT-submitT < maxSub && s.Err != "" && s == firstStart(starts) && strings.Contains(s.Err, "stale") {
					v.addf("C12", "C12.r4", "fresh plan rejected as stale", []int{s.CallSeq}, "Start(%s) %s after submission rejected: %s", pp, fmtT(s.RetT-submitT), s.Err)
				}
			}
		}
	}
	// r6: a rejected Start has no side effects on later calls: a call issued after a
	// Start of the plan was rejected returns although the plan is not executing
	if t.Res.Hang {
		for _, a := range t.APIs {
			if a.RetSeq >= 0 || a.Plan < 0 || a.Plan >= len(t.Layouts) || (a.Op != "wait" && a.Op != "start" && a.Op != "plan") {
				continue
			}
			var rej *APIRec
			for _, s := range t.APIs {
				if s.Op == "start" && s.Plan == a.Plan && s.RetSeq >= 0 && s.RetSeq < a.CallSeq && s.Err != "" {
					rej = s
				}
			}
			if rej == nil {
				continue
			}
			for _, e := range t.Direct["hang"] {
				if e.Plan == nil || PlanOfPath(e.Obj) != a.Plan {
					continue
				}
				if st := status(e.Plan, planPath(a.Plan)); st != StRunning {
					v.addf("C12", "C12.r6", "a call after a rejected Start never returns although the plan is not executing ("+a.Op+", plan stored "+stName(st)+")", []int{rej.RetSeq, a.CallSeq}, "%s(%s) by client %d, issued after Start was rejected with %q, had not returned when the watchdog expired", a.Op, planPath(a.Plan), a.Client, trunc(rej.Err, 120))
				}
			}
		}
	}
	// unknown ids: must return errors, never a plan
	for _, a := range t.APIs {
		switch a.Op {
		case "startUnknown":
			if a.RetSeq >= 0 && a.Err == "" {
				v.addf("C12", "C12.r2", "Start of an unknown id returned nil", []int{a.RetSeq}, "")
			}
		}
	}
}

func firstStart(starts []*APIRec) *APIRec {
	var f *APIRec
	for _, s := range starts {
		if f == nil || s.CallSeq < f.CallSeq {
			f = s
		}
	}
	return f
}
