package sim

import (
	"encoding/json"
	"fmt"
	"time"

	"github.com/element-of-surprise/coercion/plugins"
	"github.com/element-of-surprise/coercion/workflow"
)

// ErrSnap is a structural copy of a plugins.Error chain.
type ErrSnap struct {
	Code      uint     `json:"code,omitempty"`
	Msg       string   `json:"msg"`
	Permanent bool     `json:"perm,omitempty"`
	Wrapped   *ErrSnap `json:"wrapped,omitempty"`
}

func snapErr(e *plugins.Error) *ErrSnap {
	if e == nil {
		return nil
	}
	return &ErrSnap{Code: uint(e.Code), Msg: e.Message, Permanent: e.Permanent, Wrapped: snapErr(e.Wrapped)}
}

// AttSnap is a structural copy of one workflow.Attempt.
type AttSnap struct {
	Start int64    `json:"s"`
	End   int64    `json:"e"`
	Err   *ErrSnap `json:"err,omitempty"`
	Resp  string   `json:"resp,omitempty"` // %T + JSON of the response, "" when nil
}

// ObjState is the engine-owned state of one object.
type ObjState struct {
	Status   int       `json:"st"`
	Start    int64     `json:"s"` // unix ns, 0 for the zero time
	End      int64     `json:"e"`
	Reason   int       `json:"reason,omitempty"` // plans only
	Attempts []AttSnap `json:"att,omitempty"`    // actions only
}

func tsnap(t time.Time) int64 {
	if t.IsZero() {
		return 0
	}
	return t.UnixNano()
}

func snapResp(r any) string {
	if r == nil {
		return ""
	}
	b, err := json.Marshal(r)
	if err != nil {
		return fmt.Sprintf("%T:<unencodable %v>", r, err)
	}
	return fmt.Sprintf("%T:%s", r, b)
}

func snapState(s *workflow.State) ObjState {
	if s == nil {
		return ObjState{Status: -1}
	}
	return ObjState{Status: int(s.Status), Start: tsnap(s.Start), End: tsnap(s.End)}
}

func snapAction(a *workflow.Action) ObjState {
	st := snapState(a.State)
	for _, at := range a.Attempts {
		if at == nil {
			st.Attempts = append(st.Attempts, AttSnap{Start: -1, End: -1})
			continue
		}
		st.Attempts = append(st.Attempts, AttSnap{Start: tsnap(at.Start), End: tsnap(at.End), Err: snapErr(at.Err), Resp: snapResp(at.Resp)})
	}
	return st
}

// PlanSnap is a structural copy of the engine-owned state of a whole plan, keyed
// by logical path, in walk order.
type PlanSnap struct {
	Paths  []string   `json:"paths"`
	States []ObjState `json:"states"`
	Submit int64      `json:"submit,omitempty"`
	idx    map[string]int
}

func (p *PlanSnap) Get(path string) (ObjState, bool) {
	if p == nil {
		return ObjState{}, false
	}
	if p.idx == nil {
		p.idx = map[string]int{}
		for i, s := range p.Paths {
			p.idx[s] = i
		}
	}
	i, ok := p.idx[path]
	if !ok {
		return ObjState{}, false
	}
	return p.States[i], true
}

func (p *PlanSnap) add(path string, st ObjState) {
	p.Paths = append(p.Paths, path)
	p.States = append(p.States, st)
}

// SnapPlan copies the state of plan (which must have the shape of layout idx).
// Structure mismatches are reported as paths with Status -2.
func SnapPlan(idx int, plan *workflow.Plan) *PlanSnap {
	if plan == nil {
		return nil
	}
	s := &PlanSnap{Submit: tsnap(plan.SubmitTime)}
	pp := fmt.Sprintf("p%d", idx)
	ps := snapState(plan.State)
	ps.Reason = int(plan.Reason)
	s.add(pp, ps)
	addChecks := func(parent string, cs [5]*workflow.Checks) {
		for gi, c := range cs {
			if c == nil {
				continue
			}
			cp := parent + "/" + groupNames[gi]
			s.add(cp, snapState(c.State))
			for ai, a := range c.Actions {
				s.add(fmt.Sprintf("%s/a%d", cp, ai), snapAction(a))
			}
		}
	}
	addChecks(pp, [5]*workflow.Checks{plan.BypassChecks, plan.PreChecks, plan.ContChecks, plan.PostChecks, plan.DeferredChecks})
	for bi, b := range plan.Blocks {
		bp := fmt.Sprintf("%s/b%d", pp, bi)
		s.add(bp, snapState(b.State))
		addChecks(bp, [5]*workflow.Checks{b.BypassChecks, b.PreChecks, b.ContChecks, b.PostChecks, b.DeferredChecks})
		for si, sq := range b.Sequences {
			sp := fmt.Sprintf("%s/s%d", bp, si)
			s.add(sp, snapState(sq.State))
			for ai, a := range sq.Actions {
				s.add(fmt.Sprintf("%s/a%d", sp, ai), snapAction(a))
			}
		}
	}
	return s
}

// Equal reports structural equality of two snapshots and, if unequal, the first
// differing path.
func (p *PlanSnap) Equal(q *PlanSnap) (bool, string) {
	if p == nil || q == nil {
		if p == q {
			return true, ""
		}
		return false, "<nil plan>"
	}
	if len(p.Paths) != len(q.Paths) {
		return false, fmt.Sprintf("<object count %d vs %d>", len(p.Paths), len(q.Paths))
	}
	for i := range p.Paths {
		if p.Paths[i] != q.Paths[i] {
			return false, p.Paths[i]
		}
		if !stateEqual(p.States[i], q.States[i]) {
			return false, p.Paths[i]
		}
	}
	if p.Submit != q.Submit {
		return false, "<submit time>"
	}
	return true, ""
}

func stateEqual(a, b ObjState) bool {
	if a.Status != b.Status || a.Start != b.Start || a.End != b.End || a.Reason != b.Reason || len(a.Attempts) != len(b.Attempts) {
		return false
	}
	for i := range a.Attempts {
		if !attEqual(a.Attempts[i], b.Attempts[i]) {
			return false
		}
	}
	return true
}

func attEqual(a, b AttSnap) bool {
	if a.Start != b.Start || a.End != b.End || a.Resp != b.Resp {
		return false
	}
	return errEqual(a.Err, b.Err)
}

func errEqual(a, b *ErrSnap) bool {
	if a == nil || b == nil {
		return a == b
	}
	if a.Code != b.Code || a.Msg != b.Msg || a.Permanent != b.Permanent {
		return false
	}
	return errEqual(a.Wrapped, b.Wrapped)
}

// Status names for messages.
func stName(s int) string {
	switch workflow.Status(s) {
	case workflow.NotStarted:
		return "NotStarted"
	case workflow.Running:
		return "Running"
	case workflow.Completed:
		return "Completed"
	case workflow.Failed:
		return "Failed"
	case workflow.Stopped:
		return "Stopped"
	}
	return fmt.Sprintf("Status(%d)", s)
}

const (
	StNotStarted = int(workflow.NotStarted)
	StRunning    = int(workflow.Running)
	StCompleted  = int(workflow.Completed)
	StFailed     = int(workflow.Failed)
	StStopped    = int(workflow.Stopped)
)
