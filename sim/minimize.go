package sim

import (
	"encoding/json"
	"testing"
)

// Minimisation: delta debugging over the structured world spec. A step is kept
// only if the same violation class still occurs (with the scheduler re-seeded
// from the same SchedSeed; the final spec is then frozen with its decision list).

func cloneSpec(s *RunSpec) *RunSpec {
	b, _ := json.Marshal(s)
	var out RunSpec
	_ = json.Unmarshal(b, &out)
	return &out
}

type evalFn func(t *testing.T, s *RunSpec) (*RunResult, []Violation)

func hasClass(vs []Violation, class string) bool {
	for _, v := range vs {
		if v.Class == class {
			return true
		}
	}
	return false
}

// candidates returns specs that are one simplification step away from s.
func candidates(s *RunSpec) []*RunSpec {
	var out []*RunSpec
	add := func(f func(c *RunSpec) bool) {
		c := cloneSpec(s)
		c.Decisions = nil
		if f(c) {
			out = append(out, c)
		}
	}
	// drop a whole plan (only the last one, so that plan indices stay stable)
	if len(s.Plans) > 1 {
		add(func(c *RunSpec) bool {
			last := len(c.Plans) - 1
			c.Plans = c.Plans[:last]
			var cl [][]ClientOp
			for _, ops := range c.Clients {
				var keep []ClientOp
				for _, op := range ops {
					if op.Plan != last || op.Op == "sleep" || op.Op == "startUnknown" || op.Op == "waitUnknown" || op.Op == "planUnknown" {
						keep = append(keep, op)
					}
				}
				if len(keep) > 0 {
					cl = append(cl, keep)
				}
			}
			c.Clients = cl
			return true
		})
		// move the last plan to the front is not attempted: owners reference indices
	}
	// drop clients that do not submit
	for ci := range s.Clients {
		owner := false
		for _, op := range s.Clients[ci] {
			if op.Op == "submit" {
				owner = true
			}
		}
		if !owner {
			ci := ci
			add(func(c *RunSpec) bool {
				c.Clients = append(c.Clients[:ci], c.Clients[ci+1:]...)
				return true
			})
		}
		// drop single ops other than submit
		for oi, op := range s.Clients[ci] {
			if op.Op == "submit" {
				continue
			}
			ci, oi := ci, oi
			add(func(c *RunSpec) bool {
				ops := c.Clients[ci]
				c.Clients[ci] = append(append([]ClientOp{}, ops[:oi]...), ops[oi+1:]...)
				return true
			})
		}
	}
	// second crash
	if len(s.Crashes) > 1 {
		add(func(c *RunSpec) bool { c.Crashes = c.Crashes[:len(c.Crashes)-1]; return true })
	}
	for ci := range s.Crashes {
		if s.Crashes[ci].RestartMs != 0 && len(s.Incs) == 0 {
			ci := ci
			add(func(c *RunSpec) bool { c.Crashes[ci].RestartMs = 0; return true })
		}
	}
	// policy
	if s.Policy.DelayP > 0 {
		add(func(c *RunSpec) bool { c.Policy.DelayP = 0; return true })
	}
	if s.Policy.ReplyP > 0 {
		add(func(c *RunSpec) bool { c.Policy.ReplyP = 0; return true })
	}
	if s.Policy.Kind != "first" || s.Policy.P != 0 {
		add(func(c *RunSpec) bool {
			c.Policy = PolicySpec{Kind: "first", DelayP: c.Policy.DelayP, ReplyP: c.Policy.ReplyP}
			return true
		})
	}
	for pi := range s.Plans {
		p := &s.Plans[pi]
		pi := pi
		// plan-level groups
		for gi, g := range planChecks(p) {
			if g == nil {
				continue
			}
			gi := gi
			add(func(c *RunSpec) bool { setPlanGroup(&c.Plans[pi], gi, nil); return true })
			out = append(out, checksCands(s, func(c *RunSpec) *ChecksSpec { return planChecks(&c.Plans[pi])[gi] })...)
		}
		// blocks
		for bi := range p.Blocks {
			bi := bi
			if len(p.Blocks) > 1 {
				add(func(c *RunSpec) bool {
					bs := c.Plans[pi].Blocks
					c.Plans[pi].Blocks = append(append([]BlockSpec{}, bs[:bi]...), bs[bi+1:]...)
					return true
				})
			}
			b := &p.Blocks[bi]
			for gi, g := range blockChecks(b) {
				if g == nil {
					continue
				}
				gi := gi
				add(func(c *RunSpec) bool { setBlockGroup(&c.Plans[pi].Blocks[bi], gi, nil); return true })
				out = append(out, checksCands(s, func(c *RunSpec) *ChecksSpec { return blockChecks(&c.Plans[pi].Blocks[bi])[gi] })...)
			}
			if b.EntranceMs != 0 || b.ExitMs != 0 {
				add(func(c *RunSpec) bool {
					c.Plans[pi].Blocks[bi].EntranceMs, c.Plans[pi].Blocks[bi].ExitMs = 0, 0
					return true
				})
			}
			if b.Concurrency > 1 {
				add(func(c *RunSpec) bool { c.Plans[pi].Blocks[bi].Concurrency--; return true })
			}
			if b.Tolerated != 0 {
				add(func(c *RunSpec) bool { c.Plans[pi].Blocks[bi].Tolerated = 0; return true })
			}
			for si := range b.Seqs {
				si := si
				if len(b.Seqs) > 1 {
					add(func(c *RunSpec) bool {
						ss := c.Plans[pi].Blocks[bi].Seqs
						c.Plans[pi].Blocks[bi].Seqs = append(append([]SeqSpec{}, ss[:si]...), ss[si+1:]...)
						return true
					})
				}
				for ai := range b.Seqs[si].Actions {
					ai := ai
					if len(b.Seqs[si].Actions) > 1 {
						add(func(c *RunSpec) bool {
							as := c.Plans[pi].Blocks[bi].Seqs[si].Actions
							c.Plans[pi].Blocks[bi].Seqs[si].Actions = append(append([]ActionSpec{}, as[:ai]...), as[ai+1:]...)
							return true
						})
					}
					out = append(out, actionCands(s, func(c *RunSpec) *ActionSpec { return &c.Plans[pi].Blocks[bi].Seqs[si].Actions[ai] })...)
				}
			}
		}
	}
	return out
}

func setPlanGroup(p *PlanSpec, gi int, c *ChecksSpec) {
	switch gi {
	case 0:
		p.Bypass = c
	case 1:
		p.Pre = c
	case 2:
		p.Cont = c
	case 3:
		p.Post = c
	case 4:
		p.Deferred = c
	}
}

func setBlockGroup(b *BlockSpec, gi int, c *ChecksSpec) {
	switch gi {
	case 0:
		b.Bypass = c
	case 1:
		b.Pre = c
	case 2:
		b.Cont = c
	case 3:
		b.Post = c
	case 4:
		b.Deferred = c
	}
}

func checksCands(s *RunSpec, get func(c *RunSpec) *ChecksSpec) []*RunSpec {
	var out []*RunSpec
	g := get(s)
	for ai := range g.Actions {
		ai := ai
		if len(g.Actions) > 1 {
			c := cloneSpec(s)
			c.Decisions = nil
			cg := get(c)
			cg.Actions = append(append([]ActionSpec{}, cg.Actions[:ai]...), cg.Actions[ai+1:]...)
			out = append(out, c)
		}
		out = append(out, actionCands(s, func(c *RunSpec) *ActionSpec { return &get(c).Actions[ai] })...)
	}
	return out
}

func actionCands(s *RunSpec, get func(c *RunSpec) *ActionSpec) []*RunSpec {
	var out []*RunSpec
	a := get(s)
	mk := func(f func(a *ActionSpec)) {
		c := cloneSpec(s)
		c.Decisions = nil
		f(get(c))
		out = append(out, c)
	}
	if len(a.Script) > 0 {
		mk(func(a *ActionSpec) { a.Script = nil })
		if len(a.Script) > 1 {
			mk(func(a *ActionSpec) { a.Script = a.Script[1:] })
			mk(func(a *ActionSpec) { a.Script = a.Script[:len(a.Script)-1] })
		}
	}
	if a.Default.Kind != OK {
		mk(func(a *ActionSpec) { a.Default = Outcome{Kind: OK, LatMs: 137} })
	}
	if a.Retries > 0 {
		mk(func(a *ActionSpec) { a.Retries = 0 })
	}
	if a.Ptr {
		mk(func(a *ActionSpec) { a.Ptr = false })
	}
	return out
}

// Minimize shrinks spec while class keeps occurring. It returns the smallest
// spec found, frozen with the decision list of its failing run, and the number
// of probes spent.
func Minimize(t *testing.T, spec *RunSpec, class string, eval evalFn, budget int) (*RunSpec, int) {
	cur := cloneSpec(spec)
	cur.Decisions = nil
	probes := 0
	improved := true
	for improved && probes < budget {
		improved = false
		for _, c := range candidates(cur) {
			if probes >= budget {
				break
			}
			probes++
			res, vs := eval(t, c)
			if res.Harness != "" || res.Overrun {
				continue
			}
			if hasClass(vs, class) {
				cur = c
				improved = true
				break
			}
		}
	}
	// freeze the schedule
	res, vs := eval(t, cur)
	if hasClass(vs, class) {
		frozen := cloneSpec(cur)
		frozen.Decisions = res.Decisions
		if r2, v2 := eval(t, frozen); r2.Harness == "" && hasClass(v2, class) {
			cur = frozen
			// prefer simple schedules: zero decisions from the end while the class persists
			for i := len(cur.Decisions) - 1; i >= 0 && probes < budget+100; i-- {
				if cur.Decisions[i] == 0 {
					continue
				}
				c := cloneSpec(cur)
				c.Decisions[i] = 0
				probes++
				if r3, v3 := eval(t, c); r3.Harness == "" && hasClass(v3, class) {
					c.Decisions = r3.Decisions
					cur = c
					if i > len(cur.Decisions) {
						i = len(cur.Decisions)
					}
				}
			}
		}
	}
	return cur, probes
}
