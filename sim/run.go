package sim

import (
	stdctx "context"
	"fmt"
	"runtime/debug"
	"strings"
	"sync"
	"testing"
	"testing/synctest"
	"time"

	coercion "github.com/element-of-surprise/coercion"
	"github.com/element-of-surprise/coercion/workflow"
	"github.com/element-of-surprise/coercion/workflow/storage"
	"github.com/element-of-surprise/coercion/workflow/storage/sqlite"
	"github.com/google/uuid"
	"github.com/gostdlib/base/concurrency/worker"
	"github.com/gostdlib/base/context"
)

// RunResult is everything the oracles see of one simulated run.
type RunResult struct {
	Spec      *RunSpec       `json:"spec"`
	Events    []Event        `json:"events"`
	Decisions []int          `json:"decisions"`
	Steps     int            `json:"steps"`
	SimNs     int64          `json:"simNs"`
	Hang      bool           `json:"hang,omitempty"`
	Overrun   bool           `json:"overrun,omitempty"` // step budget exhausted (harness limit, not a verdict)
	Harness   string         `json:"harness,omitempty"` // harness trouble (never a violation)
	Faults    map[string]int `json:"faults,omitempty"`
	Probes    map[string]int `json:"probes,omitempty"`
	Incs      int            `json:"incs"`
	Detsel    int            `json:"detsel"`

	Layouts []*Layout `json:"-"`
}

var unknownID = uuid.MustParse("0198f3a0-0000-7000-8000-00000000dead")

// simBudget bounds the simulated duration of a run.
func simBudget(spec *RunSpec) time.Duration {
	var sum time.Duration
	addA := func(a *ActionSpec) {
		per := a.EffTimeout() + 10*time.Second
		for _, o := range a.Script {
			if ms(o.LatMs) > per {
				per = ms(o.LatMs) + 10*time.Second
			}
		}
		if ms(a.Default.LatMs) > per {
			per = ms(a.Default.LatMs) + 10*time.Second
		}
		sum += time.Duration(a.Retries+1) * per
	}
	addC := func(c *ChecksSpec) {
		if c == nil {
			return
		}
		sum += ms(c.DelayMs)
		for i := range c.Actions {
			addA(&c.Actions[i])
		}
	}
	for pi := range spec.Plans {
		p := &spec.Plans[pi]
		for _, c := range planChecks(p) {
			addC(c)
		}
		for bi := range p.Blocks {
			b := &p.Blocks[bi]
			sum += ms(b.EntranceMs) + ms(b.ExitMs)
			for _, c := range blockChecks(b) {
				addC(c)
			}
			for si := range b.Seqs {
				for ai := range b.Seqs[si].Actions {
					addA(&b.Seqs[si].Actions[ai])
				}
			}
		}
	}
	for _, cl := range spec.Clients {
		for _, op := range cl {
			sum += ms(op.Ms)
		}
	}
	for _, c := range spec.Crashes {
		sum += ms(c.RestartMs)
	}
	sum = 20*sum + 2*ms(spec.GraceMs)
	if sum < time.Hour {
		sum = time.Hour
	}
	if spec.Policy.ReplyP > 0 {
		// slow-read-reply: every storage read of an API call or of a start-up may be
		// answered up to 1000 s late; that is the fault's doing, not a hang
		ops := 0
		for _, cl := range spec.Clients {
			ops += len(cl)
		}
		reads := 3*ops + 10 + (len(spec.Crashes)+1)*(len(spec.Plans)+2)
		sum += time.Duration(reads) * 1001 * time.Second
	}
	return sum
}

// RunOne executes one spec in a fresh bubble and returns what happened.
func RunOne(t *testing.T, spec *RunSpec) (res *RunResult) {
	res = &RunResult{Spec: spec}
	defer func() {
		if r := recover(); r != nil {
			msg := fmt.Sprint(r)
			// Goroutines of dead incarnations (or of a run cut at a hang) that never
			// finish make synctest report a deadlock when the bubble ends; the verdict
			// was computed before, so this is not an error.
			if strings.Contains(msg, "deadlock") || strings.Contains(msg, "blocked goroutines remain") {
				res.Probes = addTo(res.Probes, "bubble ended with blocked goroutines", 1)
				return
			}
			res.Harness = "panic outside bubble: " + msg + "\n" + string(debug.Stack())
		}
	}()
	synctest.Test(t, func(t *testing.T) {
		defer func() {
			if r := recover(); r != nil {
				res.Harness = fmt.Sprintf("panic in controller: %v\n%s", r, debug.Stack())
			}
		}()
		runInBubble(spec, res)
	})
	return res
}

func addTo(m map[string]int, k string, n int) map[string]int {
	if m == nil {
		m = map[string]int{}
	}
	m[k] += n
	return m
}

type controller struct {
	spec    *RunSpec
	w       *World
	res     *RunResult
	disk    storage.Vault
	layouts []*Layout

	mu        sync.Mutex
	ids       []uuid.UUID
	submitted []chan struct{}
	subOnce   []sync.Once
}

func (c *controller) specOf(path string) *ActionSpec {
	pi := PlanOfPath(path)
	if pi < 0 || pi >= len(c.layouts) {
		return nil
	}
	if o, ok := c.layouts[pi].ByPath[path]; ok {
		return o.Spec
	}
	return nil
}

func (c *controller) id(i int) uuid.UUID {
	c.mu.Lock()
	defer c.mu.Unlock()
	return c.ids[i]
}

// registerPaths maps every object id of a freshly id-ed plan to its logical path.
func registerPaths(w *World, idx int, plan *workflow.Plan) {
	pp := fmt.Sprintf("p%d", idx)
	w.SetPath(plan.ID, pp)
	addChecks := func(parent string, cs [5]*workflow.Checks) {
		for gi, ch := range cs {
			if ch == nil {
				continue
			}
			cp := parent + "/" + groupNames[gi]
			w.SetPath(ch.ID, cp)
			for ai, a := range ch.Actions {
				w.SetPath(a.ID, fmt.Sprintf("%s/a%d", cp, ai))
			}
		}
	}
	addChecks(pp, [5]*workflow.Checks{plan.BypassChecks, plan.PreChecks, plan.ContChecks, plan.PostChecks, plan.DeferredChecks})
	for bi, b := range plan.Blocks {
		bp := fmt.Sprintf("%s/b%d", pp, bi)
		w.SetPath(b.ID, bp)
		addChecks(bp, [5]*workflow.Checks{b.BypassChecks, b.PreChecks, b.ContChecks, b.PostChecks, b.DeferredChecks})
		for si, s := range b.Sequences {
			sp := fmt.Sprintf("%s/s%d", bp, si)
			w.SetPath(s.ID, sp)
			for ai, a := range s.Actions {
				w.SetPath(a.ID, fmt.Sprintf("%s/a%d", sp, ai))
			}
		}
	}
}

// directRead reads plan i from the disk, bypassing the engine and the scheduler.
func (c *controller) directRead(i int, note string, gen int) *PlanSnap {
	id := c.id(i)
	if id == uuid.Nil {
		return nil
	}
	p, err := c.disk.Read(stdctx.Background(), id)
	var snap *PlanSnap
	if err == nil && p != nil && p.ID == id {
		snap = SnapPlan(i, p)
	}
	c.w.Log(Event{Gen: gen, Kind: EvDirect, Obj: fmt.Sprintf("p%d", i), Note: note, Plan: snap, Err: errStr(err)})
	return snap
}

func runInBubble(spec *RunSpec, res *RunResult) {
	uuid.SetRand(NewRng(Mix(spec.Seed, 0x1d5eed)))
	w := NewWorld(spec)
	SetDetselHook(w.DetselPerm)
	defer SetDetselHook(nil)
	SetYieldHook(w.Yield)
	defer SetYieldHook(nil)
	SetYieldCtxHook(w.YieldCtx)
	defer SetYieldCtxHook(nil)
	go w.schedulerLoop()

	c := &controller{spec: spec, w: w, res: res}
	for i := range spec.Plans {
		c.layouts = append(c.layouts, NewLayout(i, &spec.Plans[i]))
	}
	res.Layouts = c.layouts
	c.ids = make([]uuid.UUID, len(spec.Plans))
	c.submitted = make([]chan struct{}, len(spec.Plans))
	c.subOnce = make([]sync.Once, len(spec.Plans))
	for i := range c.submitted {
		c.submitted[i] = make(chan struct{})
	}
	w.failWrite = spec.FailWrite

	hangCh := make(chan struct{})
	watchdog := time.AfterFunc(simBudget(spec), func() { close(hangCh) })
	defer watchdog.Stop()

	var pools []*worker.Pool
	decodeReg := NewRegistry(nil, 0, nil)
	hang := false

	for inc := 0; ; inc++ {
		res.Incs = inc + 1
		gen := w.Gen()
		pool, err := worker.New(stdctx.Background(), fmt.Sprintf("simpool%d", inc), worker.WithSize(64))
		if err != nil {
			res.Harness = "worker.New: " + err.Error()
			break
		}
		pools = append(pools, pool)
		worker.Set(pool)
		ctx := WithGen(context.Background(), gen)
		if inc == 0 {
			d, err := sqlite.New(ctx, "", decodeReg, sqlite.WithInMemory())
			if err != nil {
				res.Harness = "sqlite.New: " + err.Error()
				break
			}
			c.disk = d
		}
		w.mu.Lock()
		w.writes = 0
		w.crashAt = 0
		if inc < len(spec.Crashes) {
			w.crashAt = spec.Crashes[inc].AtWrite
		}
		w.mu.Unlock()

		reg := NewRegistry(w, gen, c.specOf)
		vault := NewSimVault(w, gen, c.disk)
		is := spec.Inc(inc)
		var opts []coercion.Option
		if is.MaxLastUpdateMs > 0 {
			opts = append(opts, coercion.WithMaxLastUpdate(ms(is.MaxLastUpdateMs)))
		}
		if is.MaxSubmitMs > 0 {
			opts = append(opts, coercion.WithMaxSubmit(ms(is.MaxSubmitMs)))
		}
		if is.NoRecovery {
			opts = append(opts, coercion.WithNoRecovery())
		}

		var ws *coercion.Workstream
		crashesBefore := w.CrashCount()
		newDone := make(chan struct{})
		go func() {
			defer close(newDone)
			defer func() {
				if r := recover(); r != nil && !w.Dead(gen) {
					w.Log(Event{Gen: gen, Kind: EvPanic, Op: "New", Note: fmt.Sprintf("%v\n%s", r, debug.Stack())})
				}
			}()
			var err error
			ws, err = coercion.New(ctx, reg, vault, opts...)
			if !w.Dead(gen) {
				w.Log(Event{Gen: gen, Kind: EvNewRet, Err: errStr(err)})
			}
		}()

		crashed := false
		select {
		case <-newDone:
		case <-w.CrashSig(gen):
			crashed = true
		case <-hangCh:
			hang = true
		}
		// Several arms can be ready at once (a death releases the clients of the dead process,
		// which then finish): the verdict is the death counter, not the runtime's pick.
		if !hang && w.CrashCount() > crashesBefore {
			crashed = true
		}
		if hang {
			break
		}

		var clientsDone chan struct{}
		if !crashed {
			if ws == nil {
				break // New failed or panicked: logged; nothing more to drive
			}
			clientsDone = make(chan struct{})
			var wg sync.WaitGroup
			scripts := spec.Clients
			if inc > 0 {
				// wait for, then read, every plan that made it into the store
				scripts = nil
				for i := range spec.Plans {
					if c.id(i) != uuid.Nil {
						scripts = append(scripts, []ClientOp{{Op: "wait", Plan: i}})
					}
				}
			}
			var primary sync.WaitGroup
			for ci, ops := range scripts {
				wg.Add(1)
				isPrimary := len(ops) == 0 || ops[0].Op != "await-final"
				if isPrimary {
					primary.Add(1)
				}
				go func(ci int, ops []ClientOp) {
					defer wg.Done()
					if isPrimary {
						defer primary.Done()
					}
					c.runClient(ws, gen, ci, ops)
				}(ci, ops)
			}
			if inc == 0 {
				go func() {
					primary.Wait()
					select {
					case <-w.primaryDone:
					default:
						close(w.primaryDone)
					}
				}()
			}
			go func() { wg.Wait(); close(clientsDone) }()
			select {
			case <-clientsDone:
			case <-w.CrashSig(gen):
				crashed = true
			case <-hangCh:
				hang = true
			}
			if hang {
				select {
				case <-clientsDone: // finished at the very instant of the watchdog: not a hang
					hang = false
				default:
				}
			}
			if !hang && w.CrashCount() > crashesBefore {
				crashed = true
			}
		}
		if hang {
			break
		}
		if !crashed {
			break
		}
		// The process died. Only the disk survives.
		for i := range spec.Plans {
			c.directRead(i, "crash", gen)
		}
		restart := ms(spec.Crashes[inc].RestartMs)
		if age := spec.Crashes[inc].AgeNs; age != nil {
			restart = 0
			maxAge := 30 * time.Minute
			if m := spec.Inc(inc + 1).MaxLastUpdateMs; m > 0 {
				maxAge = ms(m)
			}
			for _, e := range w.Events() {
				if e.Kind == EvDirect && e.Note == "crash" && e.Gen == gen && e.Plan != nil && status(e.Plan, e.Obj) == StRunning {
					last := lastUpdateOf(e.Plan) - epochUnixNs // ns since the epoch of the run
					target := last + int64(maxAge) + *age      // instant at which age == maxAge + AgeNs
					if d := target - w.Now(); d > 0 {
						restart = time.Duration(d)
					}
					break
				}
			}
		}
		if restart > 0 {
			time.Sleep(restart)
			w.fault("clock-jump")
		}
		w.Log(Event{Gen: w.Gen(), Kind: EvRestart, Note: fmt.Sprintf("after %v", restart)})
	}

	gen := w.Gen()
	if hang {
		res.Hang = true
		w.Log(Event{Gen: gen, Kind: EvHang, Note: strings.Join(w.ParkedLabels(), " | ")})
		for i := range spec.Plans {
			c.directRead(i, "hang", gen)
		}
	} else if res.Harness == "" {
		grace := ms(spec.GraceMs)
		if grace <= 0 {
			grace = time.Minute
		}
		time.Sleep(grace)
		for i := range spec.Plans {
			c.directRead(i, "D1", gen)
		}
		time.Sleep(grace)
		for i := range spec.Plans {
			c.directRead(i, "D2", gen)
		}
	}
	w.Log(Event{Gen: gen, Kind: EvEnd})

	// Wind down: everything still alive becomes a zombie and drains.
	w.Kill()
	w.Stop()
	synctest.Wait()
	res.SimNs = w.Now()
	res.Events = w.Events()
	res.Decisions = w.Decisions()
	res.Steps = w.Steps()
	res.Overrun = w.overrun
	res.Faults = w.Faults
	res.Probes = w.Probes
	res.Detsel = w.detselPerms
	for _, p := range pools {
		cctx, cancel := stdctx.WithTimeout(stdctx.Background(), 5*time.Minute)
		p.Close(cctx)
		cancel()
	}
	if c.disk != nil {
		c.disk.Close(stdctx.Background())
	}
}

// lastUpdateOf mirrors the documented notion of a plan's most recent recorded
// activity: the newest Start/End timestamp of any object (unix ns).
func lastUpdateOf(p *PlanSnap) int64 {
	var last int64
	for _, st := range p.States {
		if st.Start > last {
			last = st.Start
		}
		if st.End > last {
			last = st.End
		}
	}
	return last
}

func (c *controller) runClient(ws *coercion.Workstream, gen, ci int, ops []ClientOp) {
	w := c.w
	ctx := WithGen(WithClient(context.Background(), ci), gen)
	for _, op := range ops {
		if w.Dead(gen) {
			return
		}
		alive := c.clientOp(ctx, ws, gen, ci, op)
		if !alive {
			return
		}
	}
}

func (c *controller) clientOp(ctx context.Context, ws *coercion.Workstream, gen, ci int, op ClientOp) (alive bool) {
	w := c.w
	label := fmt.Sprintf("api: c%d %s p%d", ci, op.Op, op.Plan)
	var id uuid.UUID
	switch op.Op {
	case "sleep":
		time.Sleep(ms(op.Ms))
		return !w.Dead(gen)
	case "await-final":
		// proceed the moment the engine is about to store the plan's terminal state (or
		// when all ordinary clients are done: the plan may never get that far)
		select {
		case <-w.FinalCh(op.Plan):
		case <-w.primaryDone:
		}
		return !w.Dead(gen)
	case "submit":
	case "startUnknown", "waitUnknown", "planUnknown":
		id = unknownID
	default:
		// operations on a plan need its id: wait until its owner has submitted it
		if op.Plan < 0 || op.Plan >= len(c.submitted) {
			return true
		}
		select {
		case <-c.submitted[op.Plan]:
		case <-time.After(simBudget(c.spec) / 4):
			return false
		}
		id = c.id(op.Plan)
		if id == uuid.Nil {
			return true // submission failed; nothing to operate on
		}
	}
	if !w.Park(gen, label) {
		return false
	}
	w.Log(Event{Gen: gen, Kind: EvAPICall, Client: ci, Op: op.Op, Obj: fmt.Sprintf("p%d", op.Plan)})
	obj := fmt.Sprintf("p%d", op.Plan)
	defer func() {
		if r := recover(); r != nil {
			if !w.Dead(gen) {
				w.Log(Event{Gen: gen, Kind: EvPanic, Client: ci, Op: op.Op, Obj: obj, Note: fmt.Sprintf("%v\n%s", r, debug.Stack())})
			}
			alive = !w.Dead(gen)
		}
	}()
	switch op.Op {
	case "submit":
		plan := BuildPlan(op.Plan, &c.spec.Plans[op.Plan])
		pid, err := ws.Submit(ctx, plan)
		if w.Dead(gen) {
			return false
		}
		if err == nil {
			c.mu.Lock()
			c.ids[op.Plan] = pid
			c.mu.Unlock()
		}
		c.subOnce[op.Plan].Do(func() { close(c.submitted[op.Plan]) })
		var snap *PlanSnap
		if err == nil {
			snap = SnapPlan(op.Plan, plan)
		}
		w.Log(Event{Gen: gen, Kind: EvAPIRet, Client: ci, Op: op.Op, Obj: obj, Err: errStr(err), Plan: snap})
	case "start", "startUnknown":
		err := ws.Start(ctx, id)
		if w.Dead(gen) {
			return false
		}
		w.Log(Event{Gen: gen, Kind: EvAPIRet, Client: ci, Op: op.Op, Obj: obj, Err: errStr(err)})
	case "wait", "waitUnknown":
		p, err := ws.Wait(ctx, id)
		if w.Dead(gen) {
			return false
		}
		var snap *PlanSnap
		if p != nil && op.Op == "wait" && p.ID == id {
			snap = SnapPlan(op.Plan, p)
		}
		note := ""
		if p != nil && snap == nil {
			note = "non-nil plan"
		}
		w.Log(Event{Gen: gen, Kind: EvAPIRet, Client: ci, Op: op.Op, Obj: obj, Err: errStr(err), Plan: snap, Note: note})
		if op.Op == "wait" {
			c.directRead(op.Plan, "D0", gen)
		}
	case "plan", "planUnknown":
		p, err := ws.Plan(ctx, id)
		if w.Dead(gen) {
			return false
		}
		var snap *PlanSnap
		if p != nil && op.Op == "plan" && p.ID == id {
			snap = SnapPlan(op.Plan, p)
		}
		note := ""
		if p != nil && snap == nil {
			note = "non-nil plan"
		}
		w.Log(Event{Gen: gen, Kind: EvAPIRet, Client: ci, Op: op.Op, Obj: obj, Err: errStr(err), Plan: snap, Note: note})
	case "status":
		iv := ms(op.Ms)
		if iv <= 0 {
			iv = time.Second
		}
		n := 0
		for r := range ws.Status(ctx, id, iv) {
			if w.Dead(gen) {
				return false
			}
			var snap *PlanSnap
			if r.Data != nil {
				snap = SnapPlan(op.Plan, r.Data)
			}
			w.Log(Event{Gen: gen, Kind: EvAPIRet, Client: ci, Op: "status", Obj: obj, Err: errStr(r.Err), Plan: snap, Inv: n})
			n++
			if n > 5000 {
				break
			}
		}
		if w.Dead(gen) {
			return false
		}
		w.Log(Event{Gen: gen, Kind: EvAPIRet, Client: ci, Op: "status-end", Obj: obj})
	}
	return !w.Dead(gen)
}
