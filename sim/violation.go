package sim

import (
	"fmt"
	"sort"
)

// Violation is one oracle verdict.
type Violation struct {
	Prop  string `json:"prop"`
	Rule  string `json:"rule"`  // e.g. "C03.r2"
	Class string `json:"class"` // rule + shape signature; what minimisation preserves and known findings list
	Msg   string `json:"msg"`
	Seqs  []int  `json:"seqs,omitempty"` // witness event sequence numbers
}

type vset struct {
	list []Violation
	seen map[string]bool
}

func (v *vset) add(prop, rule, shape, msg string, seqs ...int) {
	class := rule
	if shape != "" {
		class = rule + " " + shape
	}
	if v.seen == nil {
		v.seen = map[string]bool{}
	}
	// keep the first witness of each class per run
	if v.seen[class] {
		return
	}
	v.seen[class] = true
	v.list = append(v.list, Violation{Prop: prop, Rule: rule, Class: class, Msg: msg, Seqs: seqs})
}

func (v *vset) addf(prop, rule, shape string, seqs []int, format string, args ...any) {
	v.add(prop, rule, shape, fmt.Sprintf(format, args...), seqs...)
}

func sortViolations(vs []Violation) {
	sort.SliceStable(vs, func(i, j int) bool { return vs[i].Class < vs[j].Class })
}

// epochUnixNs is the Unix time at which every synctest bubble's clock starts
// (2000-01-01T00:00:00Z).
const epochUnixNs int64 = 946684800_000_000_000

// EvaluateExec runs every E1 oracle over one run.
func EvaluateExec(res *RunResult) []Violation {
	t := BuildTrace(res)
	v := &vset{}
	oracleC01(t, v)
	oracleC02(t, v)
	oracleC03(t, v)
	oracleC04(t, v)
	oracleC05(t, v)
	oracleC06(t, v)
	oracleC07(t, v)
	oracleC08(t, v)
	oracleC12(t, v)
	sortViolations(v.list)
	return v.list
}
