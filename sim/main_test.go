package sim

import "testing"

// TestWorker is the entry point the orchestrator uses (SIM_JOB=<job file>).
func TestWorker(t *testing.T) { WorkerMain(t) }

// TestReplay replays one replay file (SIM_REPLAY=<file>).
func TestReplay(t *testing.T) { ReplayMain(t) }

// TestKillChild is the child process of the createkill engine (SIM_KILL_SPEC=<file>).
func TestKillChild(t *testing.T) { KillChildMain(t) }

// TestFailStopChild is the child process of the failstop engine.
func TestFailStopChild(t *testing.T) { FailStopChildMain(t) }

// TestRealKillChild is the child process of the realkill cross-validation pass.
func TestRealKillChild(t *testing.T) { RealKillChildMain(t) }
