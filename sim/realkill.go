package sim

import (
	stdctx "context"
	"encoding/json"
	"fmt"
	"os"
	"os/exec"
	"sort"
	"strings"
	"sync"
	"syscall"
	"testing"
	"time"

	coercion "github.com/element-of-surprise/coercion"
	"github.com/element-of-surprise/coercion/plugins"
	"github.com/element-of-surprise/coercion/plugins/registry"
	"github.com/element-of-surprise/coercion/workflow"
	"github.com/element-of-surprise/coercion/workflow/storage"
	"github.com/element-of-surprise/coercion/workflow/storage/sqlite"
	"github.com/google/uuid"
	"github.com/gostdlib/base/context"
	"github.com/gostdlib/base/retry/exponential"
)

// ---------------------------------------------------------------------------
// Cross-validation of the simulated crash model (C10): the same kind of plan is
// run by a REAL process on a REAL file-backed SQLite store with real
// (millisecond) sleeps; the process SIGKILLs itself immediately before its w-th
// durable write; a fresh process recovers on the same directory. The schedule
// of such a run is not ours, so a disagreement is reported as a fidelity
// warning to investigate, never as a violation.
// ---------------------------------------------------------------------------

type realPlugin struct {
	name  string
	check bool
	ptr   bool
	specs func(path string) *ActionSpec
	mu    *sync.Mutex
	log   *os.File
}

func (p *realPlugin) Name() string  { return p.name }
func (p *realPlugin) IsCheck() bool { return p.check }
func (p *realPlugin) Init() error   { return nil }
func (p *realPlugin) Request() any {
	if p.ptr {
		return &Req{}
	}
	return Req{}
}
func (p *realPlugin) Response() any {
	if p.ptr {
		return &Resp{}
	}
	return Resp{}
}
func (p *realPlugin) ValidateReq(req any) error { return nil }
func (p *realPlugin) RetryPolicy() exponential.Policy {
	return exponential.Policy{InitialInterval: 5 * time.Millisecond, Multiplier: 2, RandomizationFactor: 0, MaxInterval: 20 * time.Millisecond}
}

func (p *realPlugin) Execute(ctx stdctx.Context, req any) (any, *plugins.Error) {
	path := reqPath(req)
	p.mu.Lock()
	fmt.Fprintf(p.log, "enter %s\n", path)
	p.mu.Unlock()
	spec := p.specs(path)
	lat := 5 * time.Millisecond
	kind := OK
	if spec != nil {
		lat = time.Duration(5+spec.Default.LatMs/300) * time.Millisecond // 137..5137 ms simulated -> 5..22 ms real
		kind = spec.Default.Kind
	}
	time.Sleep(lat)
	p.mu.Lock()
	fmt.Fprintf(p.log, "exit %s %s\n", path, kind)
	p.mu.Unlock()
	if kind != OK {
		return nil, &plugins.Error{Code: 9, Message: "permanent " + path, Permanent: true}
	}
	r := Resp{Path: path, Note: "resp"}
	if p.ptr {
		return &r, nil
	}
	return r, nil
}

func realRegistry(specs func(string) *ActionSpec, log *os.File) *registry.Register {
	reg := registry.New()
	mu := &sync.Mutex{}
	for _, p := range []*realPlugin{{name: PlugAct}, {name: PlugActPtr, ptr: true}, {name: PlugChk, check: true}, {name: PlugChkPtr, check: true, ptr: true}} {
		p.specs, p.mu, p.log = specs, mu, log
		reg.MustRegister(p)
	}
	return reg
}

// killVault kills the process right before its n-th durable Update* write.
type killVault struct {
	storage.Vault
	mu sync.Mutex
	n  int
	at int
}

func (k *killVault) tick() {
	k.mu.Lock()
	k.n++
	die := k.at > 0 && k.n == k.at
	k.mu.Unlock()
	if die {
		syscall.Kill(os.Getpid(), syscall.SIGKILL)
		select {}
	}
}
func (k *killVault) UpdatePlan(ctx stdctx.Context, p *workflow.Plan) error {
	k.tick()
	return k.Vault.UpdatePlan(ctx, p)
}
func (k *killVault) UpdateBlock(ctx stdctx.Context, b *workflow.Block) error {
	k.tick()
	return k.Vault.UpdateBlock(ctx, b)
}
func (k *killVault) UpdateChecks(ctx stdctx.Context, c *workflow.Checks) error {
	k.tick()
	return k.Vault.UpdateChecks(ctx, c)
}
func (k *killVault) UpdateSequence(ctx stdctx.Context, s *workflow.Sequence) error {
	k.tick()
	return k.Vault.UpdateSequence(ctx, s)
}
func (k *killVault) UpdateAction(ctx stdctx.Context, a *workflow.Action) error {
	k.tick()
	return k.Vault.UpdateAction(ctx, a)
}

type realKillOut struct {
	Writes int         `json:"writes"` // phase run without a kill: number of durable writes
	Plans  []*PlanSnap `json:"plans"`
	Err    string      `json:"err,omitempty"`
	Hang   bool        `json:"hang,omitempty"`
}

// RealKillChildMain is the child (TestRealKillChild): SIM_RK_SPEC, SIM_RK_DIR, SIM_RK_PHASE (run|recover), SIM_RK_OUT.
func RealKillChildMain(t *testing.T) {
	specPath := os.Getenv("SIM_RK_SPEC")
	if specPath == "" {
		t.Skip()
	}
	dir, phase, outPath := os.Getenv("SIM_RK_DIR"), os.Getenv("SIM_RK_PHASE"), os.Getenv("SIM_RK_OUT")
	var spec RunSpec
	b, _ := os.ReadFile(specPath)
	if err := json.Unmarshal(b, &spec); err != nil {
		fmt.Println("CHILD-ERROR", err)
		os.Exit(3)
	}
	out := &realKillOut{}
	finish := func() {
		ob, _ := json.Marshal(out)
		os.WriteFile(outPath, ob, 0o644)
		os.Exit(0)
	}
	var layouts []*Layout
	for i := range spec.Plans {
		layouts = append(layouts, NewLayout(i, &spec.Plans[i]))
	}
	specOf := func(path string) *ActionSpec {
		pi := PlanOfPath(path)
		if pi < 0 || pi >= len(layouts) {
			return nil
		}
		if o := layouts[pi].ByPath[path]; o != nil {
			return o.Spec
		}
		return nil
	}
	logf, err := os.OpenFile(dir+".invocations", os.O_CREATE|os.O_APPEND|os.O_WRONLY, 0o644)
	if err != nil {
		fmt.Println("CHILD-ERROR", err)
		os.Exit(3)
	}
	fmt.Fprintf(logf, "process %s\n", phase)
	ctx := context.Background()
	reg := realRegistry(specOf, logf)
	disk, err := sqlite.New(ctx, dir, reg)
	if err != nil {
		out.Err = "open: " + err.Error()
		finish()
	}
	idsFile := dir + ".ids"
	var vault storage.Vault = disk
	kv := &killVault{Vault: disk}
	if phase == "run" {
		if len(spec.Crashes) > 0 {
			kv.at = spec.Crashes[0].AtWrite
		}
		vault = kv
	}
	ws, err := coercion.New(ctx, reg, vault)
	if err != nil {
		out.Err = "New: " + err.Error()
		finish()
	}
	var ids []uuid.UUID
	if phase == "run" {
		for i := range spec.Plans {
			id, err := ws.Submit(ctx, BuildPlan(i, &spec.Plans[i]))
			if err != nil {
				out.Err = "Submit: " + err.Error()
				finish()
			}
			ids = append(ids, id)
		}
		var sb strings.Builder
		for _, id := range ids {
			sb.WriteString(id.String() + "\n")
		}
		os.WriteFile(idsFile, []byte(sb.String()), 0o644)
		for _, id := range ids {
			if err := ws.Start(ctx, id); err != nil {
				out.Err = "Start: " + err.Error()
				finish()
			}
		}
	} else {
		ib, _ := os.ReadFile(idsFile)
		for _, l := range strings.Fields(string(ib)) {
			if id, err := uuid.Parse(l); err == nil {
				ids = append(ids, id)
			}
		}
	}
	for i, id := range ids {
		wctx, cancel := stdctx.WithTimeout(ctx, 60*time.Second)
		p, err := ws.Wait(wctx, id)
		cancel()
		if err != nil {
			if wctx.Err() != nil {
				out.Hang = true
				p, _ = disk.Read(ctx, id)
			} else {
				out.Err = "Wait: " + err.Error()
			}
		}
		out.Plans = append(out.Plans, SnapPlan(i, p))
	}
	out.Writes = kv.n
	finish()
}

func runRealChild(self, specFile, dir, phase, outFile string) (killed bool, out *realKillOut, err error) {
	os.Remove(outFile)
	cmd := exec.Command(self, "-test.run", "^TestRealKillChild$", "-test.count", "1")
	cmd.Env = append(os.Environ(), "SIM_RK_SPEC="+specFile, "SIM_RK_DIR="+dir, "SIM_RK_PHASE="+phase, "SIM_RK_OUT="+outFile)
	cout, cerr := cmd.CombinedOutput()
	if ee, ok := cerr.(*exec.ExitError); ok {
		if ws, ok := ee.Sys().(syscall.WaitStatus); ok && ws.Signaled() && ws.Signal() == syscall.SIGKILL {
			return true, nil, nil
		}
		return false, nil, fmt.Errorf("child failed: %v %s", cerr, trunc(string(cout), 300))
	}
	ob, rerr := os.ReadFile(outFile)
	if rerr != nil {
		return false, nil, fmt.Errorf("child wrote no result: %s", trunc(string(cout), 300))
	}
	out = &realKillOut{}
	if err := json.Unmarshal(ob, out); err != nil {
		return false, nil, err
	}
	return false, out, nil
}

func realKillWorker(t *testing.T, job *Job) {
	res := &WorkerResult{Faults: map[string]int{}, Probes: map[string]int{}, Extra: map[string]int{}}
	start := time.Now()
	deadline := start.Add(time.Duration(job.WallMs) * time.Millisecond)
	write := func() {
		res.WallMs = time.Since(start).Milliseconds()
		sort.Strings(res.Sigs)
		ob, _ := json.Marshal(res)
		os.WriteFile(job.Out, ob, 0o644)
	}
	self, _ := os.Executable()
	base, err := os.MkdirTemp("", "verif-realkill-")
	if err != nil {
		res.Fidelity = append(res.Fidelity, "harness: "+err.Error())
		write()
		return
	}
	defer os.RemoveAll(base)
	for k := 0; ; k++ {
		if (job.MaxRuns > 0 && k >= job.MaxRuns) || (job.WallMs > 0 && time.Now().After(deadline)) {
			break
		}
		idx := job.Offset + k*job.Stride
		seed := RunSeed(job.BaseSeed, job.Engine, job.Property, idx)
		if res.FirstSeed == 0 {
			res.FirstSeed = seed
		}
		res.LastSeed = seed
		r := NewRng(seed).Sub("realkill")
		g := &genCtx{r: r, size: 0, consts: true}
		g.pCheck = Pick(r, []float64{0, 0.3, 0.6})
		g.class = Pick(r, []int{clsAllOK, clsOneSeqFail, clsManySeqFail, clsCheckFail, clsBypassOK})
		p := g.plan()
		if len(p.Blocks) > 2 {
			p.Blocks = p.Blocks[:2]
		}
		for bi := range p.Blocks {
			p.Blocks[bi].EntranceMs, p.Blocks[bi].ExitMs = 0, 0
		}
		for _, c := range append([]*ChecksSpec{p.Cont}, func() []*ChecksSpec {
			var o []*ChecksSpec
			for bi := range p.Blocks {
				o = append(o, p.Blocks[bi].Cont)
			}
			return o
		}()...) {
			if c != nil {
				c.DelayMs = 15 // real milliseconds here
			}
		}
		g.applyScripts(&p)
		spec := &RunSpec{Engine: "realkill", Seed: seed, Plans: []PlanSpec{p}, Consts: true}
		wantSt, allowed := refOutcome(&p)
		sb, _ := json.Marshal(spec)
		specFile, outFile := base+"/spec.json", base+"/out.json"
		os.WriteFile(specFile, sb, 0o600)
		// uninterrupted real run: learn W and cross-check the reference model
		dir := fmt.Sprintf("%s/store-%d-base", base, idx)
		_, bo, err := runRealChild(self, specFile, dir, "run", outFile)
		os.RemoveAll(dir)
		os.Remove(dir + ".ids")
		os.Remove(dir + ".invocations")
		if err != nil || bo == nil || bo.Err != "" || bo.Hang || len(bo.Plans) == 0 {
			res.Fidelity = append(res.Fidelity, fmt.Sprintf("harness: realkill index %d: baseline failed: %v %+v", idx, err, bo))
			continue
		}
		res.Runs++
		W := bo.Writes
		disagree := func(kind, msg string) {
			res.Extra["fidelity_disagreements"]++
			if len(res.Fidelity) < 20 {
				res.Fidelity = append(res.Fidelity, fmt.Sprintf("index %d seed %d: %s: %s", idx, seed, kind, msg))
			}
		}
		if st, _ := bo.Plans[0].Get(planPath(0)); st.Status != wantSt {
			disagree("uninterrupted real run vs reference model", fmt.Sprintf("real %s, model %s", stName(st.Status), stName(wantSt)))
		}
		for c := 0; c < 3 && W > 0; c++ {
			if job.WallMs > 0 && time.Now().After(deadline) {
				break
			}
			ks := cloneSpec(spec)
			ks.Crashes = []CrashSpec{{AtWrite: 1 + r.Intn(W)}}
			kb, _ := json.Marshal(ks)
			os.WriteFile(specFile, kb, 0o600)
			dir := fmt.Sprintf("%s/store-%d-%d", base, idx, c)
			killed, _, err := runRealChild(self, specFile, dir, "run", outFile)
			if err != nil {
				res.Fidelity = append(res.Fidelity, fmt.Sprintf("harness: realkill index %d: %v", idx, err))
				os.RemoveAll(dir)
				continue
			}
			res.Runs++
			if !killed {
				res.Probes["real run finished before the kill point"]++
				os.RemoveAll(dir)
				continue
			}
			res.Faults["real SIGKILL before a durable write"]++
			_, ro, err := runRealChild(self, specFile, dir, "recover", outFile)
			os.RemoveAll(dir)
			os.Remove(dir + ".ids")
			inv, _ := os.ReadFile(dir + ".invocations")
			os.Remove(dir + ".invocations")
			if err != nil || ro == nil {
				res.Fidelity = append(res.Fidelity, fmt.Sprintf("harness: realkill index %d: recovery child failed: %v", idx, err))
				continue
			}
			res.Nontrivial++
			res.Extra["real_kill_recoveries"]++
			sg := fmt.Sprintf("%016x", propHash(fmt.Sprintf("%d/%d", idx, ks.Crashes[0].AtWrite)))
			res.Sigs = append(res.Sigs, sg)
			if ro.Hang {
				disagree("recovery after a real kill did not finish within 60 s", fmt.Sprintf("kill before write %d of %d", ks.Crashes[0].AtWrite, W))
				continue
			}
			if ro.Err != "" || len(ro.Plans) == 0 || ro.Plans[0] == nil {
				disagree("recovery after a real kill failed", ro.Err)
				continue
			}
			f := ro.Plans[0]
			l := NewLayout(0, &ks.Plans[0])
			st, _ := f.Get(planPath(0))
			if st.Status == StNotStarted {
				res.Probes["kill before the plan was durably Running"]++
				continue
			}
			sub := &vset{}
			checkConsistency("C10", l, f, sub)
			for _, x := range sub.list {
				disagree("final plan after a real kill is inconsistent: "+x.Class, x.Msg)
			}
			if st.Status != wantSt {
				disagree("outcome after a real kill differs from the reference model", fmt.Sprintf("real %s/%s, model %s (%s)", stName(st.Status), reasonName(st.Reason), stName(wantSt), reasonSet(allowed)))
			}
			// deferred checks of entered scopes ran in some incarnation
			for _, scope := range l.Scopes() {
				if !l.HasGroup(scope, "deferred") || status(f, scope) == StNotStarted || bypassed(l, f, scope) || bypassed(l, f, planPath(0)) {
					continue
				}
				for _, a := range l.GroupActions(scope, "deferred") {
					if !strings.Contains(string(inv), "exit "+a.Path+" ") {
						disagree("deferred check never ran after a real kill", a.Path)
					}
				}
			}
		}
	}
	write()
}
