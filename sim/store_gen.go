package sim

import (
	"encoding/json"
	"fmt"
	"hash/fnv"
	"os"
	"sort"
	"strings"
	"testing"
	"time"
)

// GenStore generates one store world.
func GenStore(seed uint64, prop string, idx int) *StoreSpec {
	r := NewRng(seed).Sub("gen-store")
	spec := &StoreSpec{Seed: seed, SchedSeed: Mix(seed, 0x570e5c)}
	switch x := (idx + r.Intn(2)) % 10; {
	case x < 4:
		spec.Backend = "sqlite-mem"
	case x < 7:
		spec.Backend = "sqlite-file"
	default:
		spec.Backend = "cosmos"
	}
	spec.Policy = PolicySpec{Kind: Pick(r, []string{"random", "first", "last"}), P: 0.2}
	g := &genCtx{r: r, size: 0}
	g.pCheck = Pick(r, []float64{0, 0.3, 0.6})
	np := 1 + r.Intn(6)
	if prop == "C15" {
		np = r.Intn(9)
	}
	for i := 0; i < np; i++ {
		p := g.plan()
		if len(p.Blocks) > 2 {
			p.Blocks = p.Blocks[:2]
		}
		if r.Bool(0.2) {
			g.widen(&p)
		}
		sp := StorePlan{Shape: p, Meta: r.Intn(3), Keys: r.Bool(0.4), SubmitMs: int64(i)*977 + int64(r.Intn(900))}
		if r.Bool(0.15) {
			sp.Status = Pick(r, []int{StRunning, StCompleted, StFailed})
		}
		spec.Plans = append(spec.Plans, sp)
	}
	if prop == "C13" && idx%4 == 3 && np > 0 {
		return genStoreConc(spec, r)
	}
	// hand-made ids: one child object of a plan carries the id of an object of another plan
	if (prop == "C14" || prop == "C13") && np >= 2 && r.Bool(0.25) {
		i := 1 + r.Intn(np-1)
		spec.Plans[i].Steal = 1 + r.Intn(i)
		spec.Plans[i].StealKind = Pick(r, []string{"action", "action", "seq", "block", "checks"})
	}
	// C14: unserialisable requests at a random position of some plans
	if prop == "C14" {
		for i := range spec.Plans {
			if r.Bool(0.5) {
				l := NewLayout(i, &spec.Plans[i].Shape)
				var acts []*Obj
				for _, o := range l.Objs {
					if o.Kind == KAction {
						acts = append(acts, o)
					}
				}
				o := Pick(r, acts)
				// stratify: make check actions as likely as sequence actions
				if r.Bool(0.5) {
					var cacts []*Obj
					for _, a := range acts {
						if a.IsCheckAction() {
							cacts = append(cacts, a)
						}
					}
					if len(cacts) > 0 {
						o = Pick(r, cacts)
					}
				}
				o.Spec.BadReq = true
				spec.Plans[i].BadAt = o.Path
			}
		}
	}
	nops := 12 + r.Intn(30)
	var ops []StoreOp
	created := map[int]bool{}
	anyPlan := func() int {
		if np == 0 {
			return -1
		}
		if r.Bool(0.08) {
			return -1
		}
		return r.Intn(np)
	}
	nsTime := func() int64 {
		if r.Bool(0.2) {
			return 0
		}
		return epochUnixNs + int64(r.Intn(3_600_000))*1e6 + int64(r.Intn(1_000_000))
	}
	type updRef struct {
		plan int
		path string
	}
	var updated []updRef
	for k := 0; k < nops; k++ {
		x := r.Intn(100)
		var w []int // cumulative weights: create update read exists search list delete reopen
		switch prop {
		case "C15":
			w = []int{18, 30, 36, 50, 75, 90, 97, 100}
		case "C14":
			w = []int{35, 45, 60, 65, 70, 73, 97, 100}
		default:
			w = []int{18, 50, 75, 80, 86, 90, 96, 100}
		}
		switch {
		case x < w[0]:
			i := anyPlan()
			if i < 0 {
				continue
			}
			op := StoreOp{Op: "create", Plan: i}
			if spec.Backend == "cosmos" && prop == "C14" && r.Bool(0.2) {
				op.Fault = "createItemErr"
			}
			ops = append(ops, op)
			created[i] = true
		case x < w[1]:
			if np == 0 {
				continue
			}
			i := r.Intn(np)
			l := NewLayout(i, &spec.Plans[i].Shape)
			o := Pick(r, l.Objs)
			op := StoreOp{Op: "update", Plan: i, Path: o.Path, Status: Pick(r, []int{StNotStarted, StRunning, StCompleted, StFailed, StStopped}), StartNs: nsTime(), EndNs: nsTime()}
			if len(updated) > 0 && r.Bool(0.35) {
				// write the same object again, often taking a field back to its zero value
				// (what a continuous check's re-run or a recovery reset does)
				u := Pick(r, updated)
				i, l = u.plan, NewLayout(u.plan, &spec.Plans[u.plan].Shape)
				o = l.ByPath[u.path]
				op.Plan, op.Path = i, o.Path
				if r.Bool(0.4) {
					op.EndNs = 0
				}
				if r.Bool(0.25) {
					op.StartNs = 0
				}
			}
			updated = append(updated, updRef{i, o.Path})
			if o.Kind == KPlan {
				op.Reason = Pick(r, []int{frUnknown, frPre, frBlock, frPost, frCont, frDeferred, 500, frExceed})
			}
			if o.Kind == KAction {
				for a := 0; a < r.Intn(4); a++ {
					op.Attempts = append(op.Attempts, AttGen{OK: r.Bool(0.5), StartNs: nsTime(), EndNs: nsTime(), Depth: r.Intn(3)})
				}
			}
			ops = append(ops, op)
		case x < w[2]:
			ops = append(ops, StoreOp{Op: "read", Plan: anyPlan()})
		case x < w[3]:
			ops = append(ops, StoreOp{Op: "exists", Plan: anyPlan()})
		case x < w[4]:
			op := StoreOp{Op: "search", Consume: "drain"}
			for len(op.IDs)+len(op.Groups)+len(op.Statuses) == 0 {
				if r.Bool(0.4) && np > 0 {
					for n := 0; n < 1+r.Intn(3); n++ {
						op.IDs = append(op.IDs, anyPlan())
					}
				}
				if r.Bool(0.35) {
					for n := 0; n < 1+r.Intn(2); n++ {
						op.Groups = append(op.Groups, r.Intn(3))
					}
				}
				if r.Bool(0.5) {
					for n := 0; n < 1+r.Intn(3); n++ {
						s := Pick(r, []int{StNotStarted, StRunning, StCompleted, StFailed})
						if !contains(op.Statuses, s) {
							op.Statuses = append(op.Statuses, s)
						}
					}
				}
			}
			if r.Bool(0.2) {
				op.Consume, op.K = "cancel", r.Intn(3)
			}
			ops = append(ops, op)
		case x < w[5]:
			op := StoreOp{Op: "list", Consume: "drain", Limit: Pick(r, []int{0, 0, 1, np - 1, np, np + 3})}
			if op.Limit < 0 || spec.Backend == "cosmos" {
				op.Limit = 0 // the cosmos fake client cannot take a limit parameter (it expects an int64, the reader passes an int)
			}
			if r.Bool(0.2) {
				op.Consume, op.K = "cancel", r.Intn(3)
			}
			ops = append(ops, op)
		case x < w[6]:
			op := StoreOp{Op: "delete", Plan: anyPlan()}
			if spec.Backend == "cosmos" && prop == "C14" && r.Bool(0.2) {
				op.Fault = "deleteItemErr"
			}
			ops = append(ops, op)
		default:
			if spec.Backend == "sqlite-file" {
				ops = append(ops, StoreOp{Op: "reopen"})
			}
		}
	}
	// make sure most plans get created early
	var pre []StoreOp
	for i := 0; i < np; i++ {
		if r.Bool(0.75) {
			pre = append(pre, StoreOp{Op: "create", Plan: i})
		}
	}
	spec.Clients = [][]StoreOp{append(pre, ops...)}
	return spec
}

// genStoreConc generates a concurrent history over a few shared plans.
func genStoreConc(spec *StoreSpec, r *Rng) *StoreSpec {
	spec.Conc = true
	if len(spec.Plans) > 3 {
		spec.Plans = spec.Plans[:3]
	}
	np := len(spec.Plans)
	nc := 2 + r.Intn(2)
	uniq := int64(1)
	for c := 0; c < nc; c++ {
		var ops []StoreOp
		for k := 0; k < 5+r.Intn(8); k++ {
			i := r.Intn(np)
			switch x := r.Intn(100); {
			case x < 25:
				ops = append(ops, StoreOp{Op: "create", Plan: i})
			case x < 50:
				uniq++
				ops = append(ops, StoreOp{Op: "update", Plan: i, Path: planPath(i), Status: StRunning, StartNs: epochUnixNs + uniq})
			case x < 80:
				ops = append(ops, StoreOp{Op: "read", Plan: i})
			case x < 90:
				ops = append(ops, StoreOp{Op: "exists", Plan: i})
			default:
				ops = append(ops, StoreOp{Op: "delete", Plan: i})
			}
		}
		spec.Clients = append(spec.Clients, ops)
	}
	spec.Policy = PolicySpec{Kind: "random"}
	return spec
}

func cloneStore(s *StoreSpec) *StoreSpec {
	b, _ := json.Marshal(s)
	var out StoreSpec
	_ = json.Unmarshal(b, &out)
	return &out
}

func storeSig(res *StoreResult) string {
	h := fnv.New64a()
	for _, l := range res.Trace {
		if i := strings.Index(l, " "); i >= 0 {
			l = l[i+1:]
		}
		h.Write([]byte(l))
	}
	return fmt.Sprintf("%016x", h.Sum64())
}

// minimizeStore drops operations (and then whole plans from the end) while the
// class keeps occurring.
func minimizeStore(t *testing.T, spec *StoreSpec, class, prop string, budget int) (*StoreSpec, int) {
	cur := cloneStore(spec)
	probes := 0
	has := func(s *StoreSpec) bool {
		probes++
		res := RunStore(t, s)
		return res.Harness == "" && hasClass(res.Violations, class)
	}
	improved := true
	for improved && probes < budget {
		improved = false
		for ci := range cur.Clients {
			for oi := len(cur.Clients[ci]) - 1; oi >= 0 && probes < budget; oi-- {
				c := cloneStore(cur)
				c.Clients[ci] = append(append([]StoreOp{}, c.Clients[ci][:oi]...), c.Clients[ci][oi+1:]...)
				if has(c) {
					cur = c
					improved = true
				}
			}
		}
	}
	return cur, probes
}

func storeNontrivial(prop string, res *StoreResult) bool {
	p := res.Probes
	switch prop {
	case "C13":
		return res.Ops >= 3
	case "C14":
		return p["create of an existing id"]+p["create with an encode fault or item error"] > 0 || strings.Contains(strings.Join(res.Trace, "\n"), "Delete(")
	case "C15":
		return p["filter matched a proper non-empty subset"]+p["consumer cancelled a stream"] > 0
	}
	return true
}

func storeWorker(t *testing.T, job *Job) {
	if job.Engine == "createkill" {
		createKillWorker(t, job)
		return
	}
	res := &WorkerResult{Faults: map[string]int{}, Probes: map[string]int{}, Extra: map[string]int{}}
	start := time.Now()
	deadline := start.Add(time.Duration(job.WallMs) * time.Millisecond)
	var journal *os.File
	if job.Journal != "" {
		journal, _ = os.Create(job.Journal)
		defer journal.Close()
	}
	sigs := map[string]bool{}
	byClass := map[string]*Found{}
	for k := 0; ; k++ {
		var idx int
		if job.Only != nil {
			if k >= len(job.Only) {
				break
			}
			idx = job.Only[k]
		} else {
			if (job.MaxRuns > 0 && k >= job.MaxRuns) || (job.WallMs > 0 && time.Now().After(deadline)) {
				break
			}
			idx = job.Offset + k*job.Stride
		}
		seed := RunSeed(job.BaseSeed, job.Engine, job.Property, idx)
		if journal != nil {
			fmt.Fprintf(journal, "start %d %d\n", idx, seed)
		}
		if res.Runs == 0 {
			res.FirstSeed = seed
		}
		res.LastSeed = seed
		spec := GenStore(seed, job.Property, idx)
		r := RunStore(t, spec)
		res.Runs++
		if r.Harness != "" {
			res.Harness = append(res.Harness, fmt.Sprintf("run %d seed %d: %s", idx, seed, trunc(r.Harness, 1500)))
			continue
		}
		res.SimNs += r.SimNs
		res.Steps += int64(len(r.Decisions))
		res.Events += int64(r.Ops)
		res.Extra["vault_operations"] += r.Ops
		res.Extra["backend_"+spec.Backend]++
		if spec.Conc {
			res.Extra["concurrent_histories"]++
			res.Extra["history_operations"] += r.HistoryLen
			if r.LinUnknown {
				res.Extra["linearizability_inconclusive"]++
			}
		}
		for k, n := range r.Probes {
			res.Probes[k] += n
		}
		if job.Mode == "hashes" {
			h := fnv.New64a()
			for _, l := range r.Trace {
				h.Write([]byte(l))
			}
			res.Extra[fmt.Sprintf("run%05d.001", idx)] = int(h.Sum64() & 0x7fffffffffff)
		}
		if storeNontrivial(job.Property, r) {
			res.Nontrivial++
			sg := storeSig(r)
			if !sigs[sg] {
				sigs[sg] = true
				res.Sigs = append(res.Sigs, sg)
			}
		}
		if len(res.Samples) < 2 {
			res.Samples = append(res.Samples, map[string]any{"index": idx, "seed": seed, "backend": spec.Backend, "plans": len(spec.Plans), "clients": spec.Clients, "trace_head": head(r.Trace, 25)})
		}
		for _, v := range filterProp(r.Violations, job.Property, job.AllProps) {
			if f := byClass[v.Class]; f != nil {
				f.Count++
				continue
			}
			f := &Found{Index: idx, Seed: seed, V: v, Count: 1}
			byClass[v.Class] = f
			res.Found = append(res.Found, f)
			rep := &Replay{Property: v.Prop, Engine: job.Engine, Class: v.Class, Msg: v.Msg, BaseSeed: job.BaseSeed, Index: idx, Seed: seed}
			min := spec
			if job.Minimize > 0 {
				m, probes := minimizeStore(t, spec, v.Class, job.Property, job.Minimize)
				f.Probes, min, rep.Minimised = probes, m, true
			}
			rr := RunStore(t, min)
			if rr.Harness != "" || !hasClass(rr.Violations, v.Class) {
				min, rep.Minimised = spec, false
				rr = r
			}
			frozen := cloneStore(min)
			frozen.Decisions = rr.Decisions
			rep.StoreW = frozen
			rep.Trace = rr.Trace
			if len(rep.Trace) > 60 {
				rep.Trace = rep.Trace[len(rep.Trace)-60:]
			}
			if job.ReplayDir != "" {
				name := fmt.Sprintf("%s/%s-%s-%d-%016x.json", job.ReplayDir, v.Prop, job.Engine, idx, propHash(v.Class))
				rb, _ := json.MarshalIndent(rep, "", " ")
				if err := os.WriteFile(name, rb, 0o644); err == nil {
					f.Replay = name
				}
			}
		}
	}
	res.WallMs = time.Since(start).Milliseconds()
	sort.Strings(res.Sigs)
	ob, _ := json.Marshal(res)
	if err := os.WriteFile(job.Out, ob, 0o644); err != nil {
		t.Fatalf("write result: %v", err)
	}
}

func storeReplay(t *testing.T, rep *Replay) {
	if rep.Kill != nil {
		createKillReplay(t, rep)
		return
	}
	r := RunStore(t, rep.StoreW)
	if r.Harness != "" {
		fmt.Printf("HARNESS %s\n", r.Harness)
		return
	}
	if os.Getenv("SIM_VERBOSE") != "" {
		for _, l := range r.Trace {
			fmt.Println(l)
		}
	}
	for _, v := range r.Violations {
		if v.Class == rep.Class {
			fmt.Printf("REPRODUCED property=%s class=%q\n  %s\n", v.Prop, v.Class, v.Msg)
			return
		}
	}
	fmt.Printf("NOT-REPRODUCED class=%q (classes seen: %d)\n", rep.Class, len(r.Violations))
	for _, v := range r.Violations {
		fmt.Printf("  saw %s\n", v.Class)
	}
}
