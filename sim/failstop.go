package sim

import (
	"encoding/json"
	"fmt"
	"os"
	"os/exec"
	"sort"
	"strings"
	"testing"
	"time"
)

// ---------------------------------------------------------------------------
// E5: fail-stop on storage write errors (C08.r5). An injected Vault error makes
// the real engine call log.Fatalf -> os.Exit, which would take the simulator
// down with it, so the world runs in a child process. The child flushes its
// event log right before the injected error is returned; if the engine swallows
// the error the run goes on and the child reports that it survived.
// ---------------------------------------------------------------------------

type failStopOut struct {
	Survived bool     `json:"survived"`
	FailedOp string   `json:"failedOp"`
	Events   int      `json:"events"`
	After    []string `json:"after,omitempty"` // events after the failed write (only if the process survived)
}

// FailStopChildMain is the child (TestFailStopChild, SIM_FAILSTOP_SPEC / SIM_FAILSTOP_OUT).
func FailStopChildMain(t *testing.T) {
	path, out := os.Getenv("SIM_FAILSTOP_SPEC"), os.Getenv("SIM_FAILSTOP_OUT")
	if path == "" {
		t.Skip()
	}
	b, err := os.ReadFile(path)
	if err != nil {
		fmt.Println("CHILD-ERROR", err)
		os.Exit(3)
	}
	var spec RunSpec
	if err := json.Unmarshal(b, &spec); err != nil {
		fmt.Println("CHILD-ERROR", err)
		os.Exit(3)
	}
	failStopHook = func(w *World) {
		evs := w.Events()
		o := failStopOut{Events: len(evs)}
		for i := len(evs) - 1; i >= 0; i-- {
			if evs[i].Kind == EvFault {
				o.FailedOp = evs[i].Op
				break
			}
		}
		ob, _ := json.Marshal(&o)
		os.WriteFile(out, ob, 0o644)
	}
	res := RunOne(t, &spec)
	// still alive: the engine did not stop
	o := failStopOut{Survived: true, Events: len(res.Events)}
	seen := false
	for _, e := range res.Events {
		if e.Kind == EvFault {
			seen = true
			o.FailedOp = e.Op
			continue
		}
		if seen && (e.Kind == EvWrite || e.Kind == EvPlugEnter) && len(o.After) < 5 {
			o.After = append(o.After, fmt.Sprintf("%s %s %s", e.Kind, e.Op, e.Obj))
		}
	}
	if !seen {
		o.Survived = false
		o.FailedOp = "<write not reached>"
	}
	ob, _ := json.Marshal(&o)
	os.WriteFile(out, ob, 0o644)
	os.Exit(0)
}

// failStopHook, when set, is called by every world right before an injected
// write error is returned to the engine.
var failStopHook func(w *World)

func opKindOfLabel(label string) string {
	f := strings.Fields(label)
	if len(f) >= 3 {
		return f[0] + " " + f[len(f)-1] // e.g. "UpdateAction Running"; attempts count dropped below
	}
	return label
}

func failStopWorker(t *testing.T, job *Job) {
	res := &WorkerResult{Faults: map[string]int{}, Probes: map[string]int{}, Extra: map[string]int{}}
	start := time.Now()
	deadline := start.Add(time.Duration(job.WallMs) * time.Millisecond)
	write := func() {
		res.WallMs = time.Since(start).Milliseconds()
		sort.Strings(res.Sigs)
		ob, _ := json.Marshal(res)
		os.WriteFile(job.Out, ob, 0o644)
	}
	self, err := os.Executable()
	if err != nil {
		res.Harness = append(res.Harness, err.Error())
		write()
		return
	}
	dir, err := os.MkdirTemp("", "verif-failstop-")
	if err != nil {
		res.Harness = append(res.Harness, err.Error())
		write()
		return
	}
	defer os.RemoveAll(dir)
	byClass := map[string]*Found{}
	sigs := map[string]bool{}
	for k := 0; ; k++ {
		var idx int
		if job.Only != nil {
			if k >= len(job.Only) {
				break
			}
			idx = job.Only[k]
		} else {
			if (job.MaxRuns > 0 && k >= job.MaxRuns) || (job.WallMs > 0 && time.Now().After(deadline)) {
				break
			}
			idx = job.Offset + k*job.Stride
		}
		seed := RunSeed(job.BaseSeed, job.Engine, job.Property, idx)
		if res.FirstSeed == 0 {
			res.FirstSeed = seed
		}
		res.LastSeed = seed
		spec := GenExec(seed, "C08", idx)
		spec.Policy.DelayP = 0
		base := RunOne(t, spec)
		if base.Harness != "" || base.Overrun || base.Hang {
			continue
		}
		W := countWrites(base, 0)
		if W == 0 {
			continue
		}
		r := NewRng(seed).Sub("failstop")
		n := 4
		if job.Tier == "thorough" {
			n = 12
		}
		for c := 0; c < n; c++ {
			if job.Only == nil && job.WallMs > 0 && time.Now().After(deadline) {
				break
			}
			fs := cloneSpec(spec)
			fs.Decisions = base.Decisions
			fs.FailWrite = 1 + r.Intn(W)
			sb, _ := json.Marshal(fs)
			specFile, outFile := dir+"/spec.json", dir+"/out.json"
			os.WriteFile(specFile, sb, 0o600)
			os.Remove(outFile)
			cmd := exec.Command(self, "-test.run", "^TestFailStopChild$", "-test.count", "1")
			cmd.Env = append(os.Environ(), "SIM_FAILSTOP_SPEC="+specFile, "SIM_FAILSTOP_OUT="+outFile, "GOMAXPROCS=2")
			cout, cerr := cmd.CombinedOutput()
			res.Runs++
			var o failStopOut
			ob, rerr := os.ReadFile(outFile)
			if rerr != nil || json.Unmarshal(ob, &o) != nil {
				res.Harness = append(res.Harness, fmt.Sprintf("index %d write %d: child produced no output: %v %s", idx, fs.FailWrite, cerr, trunc(string(cout), 300)))
				continue
			}
			if o.FailedOp == "<write not reached>" {
				res.Probes["injected write not reached"]++
				continue
			}
			res.Faults["write-error"]++
			res.Nontrivial++
			kind := opKindOfLabel(o.FailedOp)
			sg := fmt.Sprintf("%016x", propHash(fmt.Sprintf("%d/%d/%s", idx, fs.FailWrite, o.FailedOp)))
			if !sigs[sg] {
				sigs[sg] = true
				res.Sigs = append(res.Sigs, sg)
			}
			exited := cerr != nil
			if exited && !o.Survived {
				res.Probes["process exited at the failed write"]++
			}
			if len(res.Samples) < 2 {
				res.Samples = append(res.Samples, map[string]any{"index": idx, "fail_write": fs.FailWrite, "of": W, "failed_op": o.FailedOp, "child_exited": exited, "survived": o.Survived})
			}
			if o.Survived || !exited {
				v := Violation{Prop: "C08", Rule: "C08.r5", Class: "C08.r5 the process kept running after a failed storage write (" + kind + ")",
					Msg: fmt.Sprintf("write %d (%s) returned an error; afterwards: %v", fs.FailWrite, o.FailedOp, o.After)}
				if f := byClass[v.Class]; f != nil {
					f.Count++
					continue
				}
				f := &Found{Index: idx, Seed: seed, V: v, Count: 1}
				byClass[v.Class] = f
				res.Found = append(res.Found, f)
				rep := &Replay{Property: "C08", Engine: job.Engine, Class: v.Class, Msg: v.Msg, BaseSeed: job.BaseSeed, Index: idx, Seed: seed, Spec: fs, FailStop: true}
				if job.ReplayDir != "" {
					name := fmt.Sprintf("%s/%s-%s-%d-%016x.json", job.ReplayDir, v.Prop, job.Engine, idx, propHash(v.Class))
					rb, _ := json.MarshalIndent(rep, "", " ")
					if err := os.WriteFile(name, rb, 0o644); err == nil {
						f.Replay = name
					}
				}
			}
		}
	}
	write()
}

func failStopReplay(t *testing.T, rep *Replay) {
	self, _ := os.Executable()
	dir, err := os.MkdirTemp("", "verif-failstop-replay-")
	if err != nil {
		fmt.Println("HARNESS", err)
		return
	}
	defer os.RemoveAll(dir)
	sb, _ := json.Marshal(rep.Spec)
	specFile, outFile := dir+"/spec.json", dir+"/out.json"
	os.WriteFile(specFile, sb, 0o600)
	cmd := exec.Command(self, "-test.run", "^TestFailStopChild$", "-test.count", "1")
	cmd.Env = append(os.Environ(), "SIM_FAILSTOP_SPEC="+specFile, "SIM_FAILSTOP_OUT="+outFile, "GOMAXPROCS=2")
	_, cerr := cmd.CombinedOutput()
	var o failStopOut
	ob, _ := os.ReadFile(outFile)
	json.Unmarshal(ob, &o)
	if o.Survived || cerr == nil {
		fmt.Printf("REPRODUCED property=C08 class=%q\n  failed op %s; afterwards %v\n", rep.Class, o.FailedOp, o.After)
		return
	}
	fmt.Printf("NOT-REPRODUCED class=%q (child exited: %v)\n", rep.Class, cerr)
}
