package sim

import (
	"encoding/json"
	"fmt"
	"os"
	"sort"
	"strconv"
	"testing"
	"time"
)

func envInt(name string, def int) int {
	if s := os.Getenv(name); s != "" {
		if n, err := strconv.Atoi(s); err == nil {
			return n
		}
	}
	return def
}

// TestSweepE1 is a development helper: run N generated worlds, print a class histogram.
func TestSweepE1(t *testing.T) {
	n := envInt("SIM_N", 200)
	base := uint64(envInt("SIM_SEED", 1))
	profile := os.Getenv("SIM_PROFILE")
	classes := map[string]int{}
	example := map[string]uint64{}
	exMsg := map[string]string{}
	start := time.Now()
	var simNs int64
	harness := 0
	for i := 0; i < n; i++ {
		seed := Mix(base, uint64(i))
		spec := GenExec(seed, profile, i)
		res := RunOne(t, spec)
		simNs += res.SimNs
		if res.Harness != "" {
			harness++
			fmt.Println("HARNESS", seed, res.Harness)
			continue
		}
		for _, v := range EvaluateExec(res) {
			classes[v.Class]++
			if _, ok := example[v.Class]; !ok {
				example[v.Class] = uint64(i)
				exMsg[v.Class] = v.Msg
			}
		}
	}
	var ks []string
	for k := range classes {
		ks = append(ks, k)
	}
	sort.Strings(ks)
	for _, k := range ks {
		fmt.Printf("%5d  %s   [run %d] %s\n", classes[k], k, example[k], trunc(exMsg[k], 160))
	}
	fmt.Printf("runs=%d wall=%v sim=%s harness=%d\n", n, time.Since(start), fmtT(simNs), harness)
}

// TestOneE1 dumps one generated run (SIM_SEED base, SIM_RUN index).
func TestOneE1(t *testing.T) {
	base := uint64(envInt("SIM_SEED", 1))
	i := envInt("SIM_RUN", 0)
	seed := Mix(base, uint64(i))
	spec := GenExec(seed, os.Getenv("SIM_PROFILE"), i)
	b, _ := json.Marshal(spec)
	fmt.Println(string(b))
	res := RunOne(t, spec)
	for _, e := range res.Events {
		if e.Kind == EvPark && os.Getenv("SIM_PARKS") == "" {
			continue
		}
		e.Plan = nil
		b, _ := json.Marshal(e)
		fmt.Println(string(b))
	}
	for _, v := range EvaluateExec(res) {
		fmt.Printf("VIOL %s :: %s %v\n", v.Class, v.Msg, v.Seqs)
	}
	fmt.Printf("hang=%v harness=%q faults=%v\n", res.Hang, res.Harness, res.Faults)
}

// TestDumpRun prints the event log of one run of a batch (SIM_ENGINE, SIM_PROP, SIM_BASE, SIM_IDX).
func TestDumpRun(t *testing.T) {
	engName := os.Getenv("SIM_ENGINE")
	if engName == "" {
		t.Skip()
	}
	job := &Job{Engine: engName, Property: os.Getenv("SIM_PROP"), BaseSeed: uint64(envInt("SIM_BASE", 1)), Mode: os.Getenv("SIM_MODE")}
	idx := envInt("SIM_IDX", 0)
	seed := RunSeed(job.BaseSeed, job.Engine, job.Property, idx)
	spec := engines[engName].gen(seed, job, idx)
	if os.Getenv("SIM_SPEC") != "" {
		b, _ := json.Marshal(spec)
		fmt.Println(string(b))
	}
	res := RunOne(t, spec)
	for _, e := range res.Events {
		e.Plan = nil
		b, _ := json.Marshal(e)
		fmt.Println(string(b))
	}
	for _, v := range filterProp(engines[engName].eval(res), job.Property, os.Getenv("SIM_ALL") != "") {
		fmt.Printf("VIOL %s :: %s %v\n", v.Class, v.Msg, v.Seqs)
	}
	fmt.Printf("hang=%v harness=%q faults=%v hash=%x\n", res.Hang, res.Harness, res.Faults, FullHash(res))
}
