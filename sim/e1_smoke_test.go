package sim

import (
	"encoding/json"
	"fmt"
	"os"
	"sort"
	"strconv"
	"testing"
	"time"
)

func envInt(name string, def int) int {
	if s := os.Getenv(name); s != "" {
		if n, err := strconv.Atoi(s); err == nil {
			return n
		}
	}
	return def
}

// TestSweepE1 is a development helper: run N generated worlds, print a class histogram.
func TestSweepE1(t *testing.T) {
	n := envInt("SIM_N", 200)
	base := uint64(envInt("SIM_SEED", 1))
	profile := os.Getenv("SIM_PROFILE")
	classes := map[string]int{}
	example := map[string]uint64{}
	exMsg := map[string]string{}
	start := time.Now()
	var simNs int64
	harness := 0
	for i := 0; i < n; i++ {
		seed := Mix(base, uint64(i))
		spec := GenExec(seed, profile, i)
		res := RunOne(t, spec)
		simNs += res.SimNs
		if res.Harness != "" {
			harness++
			fmt.Println("HARNESS", seed, res.Harness)
			continue
		}
		for _, v := range EvaluateExec(res) {
			classes[v.Class]++
			if _, ok := example[v.Class]; !ok {
				example[v.Class] = uint64(i)
				exMsg[v.Class] = v.Msg
			}
		}
	}
	var ks []string
	for k := range classes {
		ks = append(ks, k)
	}
	sort.Strings(ks)
	for _, k := range ks {
		fmt.Printf("%5d  %s   [run %d] %s\n", classes[k], k, example[k], trunc(exMsg[k], 160))
	}
	fmt.Printf("runs=%d wall=%v sim=%s harness=%d\n", n, time.Since(start), fmtT(simNs), harness)
}

// TestOneE1 dumps one generated run (SIM_SEED base, SIM_RUN index).
func TestOneE1(t *testing.T) {
	base := uint64(envInt("SIM_SEED", 1))
	i := envInt("SIM_RUN", 0)
	seed := Mix(base, uint64(i))
	spec := GenExec(seed, os.Getenv("SIM_PROFILE"), i)
	b, _ := json.Marshal(spec)
	fmt.Println(string(b))
	res := RunOne(t, spec)
	for _, e := range res.Events {
		if e.Kind == EvPark && os.Getenv("SIM_PARKS") == "" {
			continue
		}
		e.Plan = nil
		b, _ := json.Marshal(e)
		fmt.Println(string(b))
	}
	for _, v := range EvaluateExec(res) {
		fmt.Printf("VIOL %s :: %s %v\n", v.Class, v.Msg, v.Seqs)
	}
	fmt.Printf("hang=%v harness=%q faults=%v\n", res.Hang, res.Harness, res.Faults)
}

// TestDumpRun prints the event log of one run of a batch (SIM_ENGINE, SIM_PROP, SIM_BASE, SIM_IDX).
func TestDumpRun(t *testing.T) {
	engName := os.Getenv("SIM_ENGINE")
	if engName == "" {
		t.Skip()
	}
	job := &Job{Engine: engName, Property: os.Getenv("SIM_PROP"), BaseSeed: uint64(envInt("SIM_BASE", 1)), Mode: os.Getenv("SIM_MODE")}
	idx := envInt("SIM_IDX", 0)
	seed := RunSeed(job.BaseSeed, job.Engine, job.Property, idx)
	spec := engines[engName].gen(seed, job, idx)
	if os.Getenv("SIM_SPEC") != "" {
		b, _ := json.Marshal(spec)
		fmt.Println(string(b))
	}
	res := RunOne(t, spec)
	for _, e := range res.Events {
		e.Plan = nil
		b, _ := json.Marshal(e)
		fmt.Println(string(b))
	}
	for _, v := range filterProp(engines[engName].eval(res), job.Property, os.Getenv("SIM_ALL") != "") {
		fmt.Printf("VIOL %s :: %s %v\n", v.Class, v.Msg, v.Seqs)
	}
	fmt.Printf("hang=%v harness=%q faults=%v hash=%x\n", res.Hang, res.Harness, res.Faults, FullHash(res))
}

// TestSweepEngine is a development helper: drive N indices of any engine and print a class histogram.
func TestSweepEngine(t *testing.T) {
	engName := os.Getenv("SIM_ENGINE")
	if engName == "" {
		t.Skip()
	}
	job := &Job{Engine: engName, Property: os.Getenv("SIM_PROP"), BaseSeed: uint64(envInt("SIM_BASE", 1)), Tier: os.Getenv("SIM_TIER")}
	n := envInt("SIM_N", 50)
	eng := engines[engName]
	classes := map[string]int{}
	example := map[string]string{}
	wr := &WorkerResult{Extra: map[string]int{}}
	runs := 0
	start := time.Now()
	for idx := envInt("SIM_FROM", 0); idx < envInt("SIM_FROM", 0)+n; idx++ {
		seed := RunSeed(job.BaseSeed, job.Engine, job.Property, idx)
		sub := 0
		run := func(spec *RunSpec) *RunResult {
			r := RunOne(t, spec)
			runs++
			sub++
			if os.Getenv("SIM_DUMP_SUB") == fmt.Sprintf("%d.%d", idx, sub) {
				fz := cloneSpec(spec)
				fz.Decisions = r.Decisions
				rb, _ := json.Marshal(&Replay{Engine: engName, Property: job.Property, Spec: fz, Class: "?"})
				os.WriteFile("/tmp/dump.json", rb, 0o644)
			}
			if r.Harness != "" {
				fmt.Println("HARNESS", idx, sub, r.Harness)
				return r
			}
			for _, v := range filterProp(eng.eval(r), job.Property, os.Getenv("SIM_ALL") != "") {
				classes[v.Class]++
				if _, ok := example[v.Class]; !ok {
					example[v.Class] = fmt.Sprintf("[idx %d.%d crashes=%v] %s", idx, sub, spec.Crashes, v.Msg)
				}
			}
			return r
		}
		eng.drive(job, idx, seed, run, func() bool { return false }, wr)
	}
	var ks []string
	for k := range classes {
		ks = append(ks, k)
	}
	sort.Strings(ks)
	for _, k := range ks {
		fmt.Printf("%5d  %s   %s\n", classes[k], k, trunc(example[k], 200))
	}
	fmt.Printf("indices=%d runs=%d wall=%v extra=%v\n", n, runs, time.Since(start), wr.Extra)
}

// TestSweepStore is a development helper for the store engine.
func TestSweepStore(t *testing.T) {
	prop := os.Getenv("SIM_PROP")
	if prop == "" {
		t.Skip()
	}
	n := envInt("SIM_N", 100)
	classes := map[string]int{}
	example := map[string]string{}
	start := time.Now()
	ops := 0
	for idx := envInt("SIM_FROM", 0); idx < envInt("SIM_FROM", 0)+n; idx++ {
		seed := RunSeed(uint64(envInt("SIM_BASE", 1)), "store", prop, idx)
		spec := GenStore(seed, prop, idx)
		r := RunStore(t, spec)
		ops += r.Ops
		if r.Harness != "" {
			fmt.Println("HARNESS", idx, r.Harness)
			continue
		}
		for _, v := range filterProp(r.Violations, prop, os.Getenv("SIM_ALL") != "") {
			classes[v.Class]++
			if _, ok := example[v.Class]; !ok {
				example[v.Class] = fmt.Sprintf("[idx %d] %s", idx, v.Msg)
			}
		}
	}
	var ks []string
	for k := range classes {
		ks = append(ks, k)
	}
	sort.Strings(ks)
	for _, k := range ks {
		fmt.Printf("%5d  %s   %s\n", classes[k], k, trunc(example[k], 160))
	}
	fmt.Printf("indices=%d ops=%d wall=%v\n", n, ops, time.Since(start))
}

// TestDumpStore prints the trace of one store run (SIM_PROP, SIM_IDX).
func TestDumpStore(t *testing.T) {
	prop := os.Getenv("SIM_PROP")
	if prop == "" {
		t.Skip()
	}
	idx := envInt("SIM_IDX", 0)
	seed := RunSeed(uint64(envInt("SIM_BASE", 1)), "store", prop, idx)
	spec := GenStore(seed, prop, idx)
	b, _ := json.Marshal(spec.Clients)
	fmt.Println(spec.Backend, len(spec.Plans), string(b))
	r := RunStore(t, spec)
	for _, l := range r.Trace {
		fmt.Println(l)
	}
	for _, v := range r.Violations {
		fmt.Println("VIOL", v.Class, "::", v.Msg)
	}
	fmt.Println("harness:", r.Harness)
}
