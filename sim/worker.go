package sim

import (
	"encoding/json"
	"fmt"
	"hash/fnv"
	"os"
	"sort"
	"strings"
	"testing"
	"time"
)

// Job is what the orchestrator hands to one worker process.
type Job struct {
	Engine    string `json:"engine"`   // exec | crash | store | createkill
	Property  string `json:"property"` // e.g. C03: selects the generation profile and the oracle whose verdicts are reported
	Tier      string `json:"tier"`
	BaseSeed  uint64 `json:"baseSeed"`
	Offset    int    `json:"offset"` // this worker runs indices Offset, Offset+Stride, ...
	Stride    int    `json:"stride"`
	MaxRuns   int    `json:"maxRuns"` // per worker
	WallMs    int64  `json:"wallMs"`  // per worker wall-clock budget
	Out       string `json:"out"`     // result file
	Journal   string `json:"journal"` // progress file (crash attribution)
	ReplayDir string `json:"replayDir"`
	Mode      string `json:"mode,omitempty"` // engine specific (e.g. enumerate)
	Only      []int  `json:"only,omitempty"` // run exactly these indices
	Minimize  int    `json:"minimize"`       // probe budget per class
	Isolated  bool   `json:"isolated"`       // one simulated world per process: never re-run a world in this process
	AllProps  bool   `json:"allProps,omitempty"`
}

// Found is one violation found by a worker.
type Found struct {
	Index  int       `json:"index"`
	Seed   uint64    `json:"seed"`
	V      Violation `json:"v"`
	Replay string    `json:"replay,omitempty"` // minimised replay file
	Probes int       `json:"probes,omitempty"`
	Count  int       `json:"count"` // occurrences of the class seen by this worker
}

// WorkerResult is what a worker reports back.
type WorkerResult struct {
	Runs       int            `json:"runs"`
	Nontrivial int            `json:"nontrivial"`
	Sigs       []string       `json:"sigs"` // signatures of the non-trivial runs (deduplicated per worker)
	SimNs      int64          `json:"simNs"`
	Steps      int64          `json:"steps"`
	Events     int64          `json:"events"`
	Faults     map[string]int `json:"faults"`
	Probes     map[string]int `json:"probes"`
	Found      []*Found       `json:"found"`
	Harness    []string       `json:"harness"`
	Overruns   int            `json:"overruns"`
	Hangs      int            `json:"hangs"`
	Samples    []any          `json:"samples"`
	Fidelity   []string       `json:"fidelity,omitempty"` // realkill cross-validation disagreements (warnings, not verdicts)
	FirstSeed  uint64         `json:"firstSeed"`
	LastSeed   uint64         `json:"lastSeed"`
	Extra      map[string]int `json:"extra"`
	WallMs     int64          `json:"wallMs"`
	Detsel     int            `json:"detsel"`
}

// Replay is the content of a replay file.
type Replay struct {
	Property  string     `json:"property"`
	Engine    string     `json:"engine"`
	Class     string     `json:"class"`
	Msg       string     `json:"msg"`
	BaseSeed  uint64     `json:"baseSeed"`
	Index     int        `json:"index"`
	Seed      uint64     `json:"seed"`
	Minimised bool       `json:"minimised"`
	Spec      *RunSpec   `json:"spec,omitempty"`
	StoreW    *StoreSpec `json:"store,omitempty"`
	Kill      *KillSpec  `json:"kill,omitempty"`
	FailStop  bool       `json:"failStop,omitempty"`
	Trace     []string   `json:"trace,omitempty"` // human-readable tail of the failing run
}

func propHash(s string) uint64 {
	h := fnv.New64a()
	h.Write([]byte(s))
	return h.Sum64()
}

// RunSeed derives the seed of run index i of a batch.
func RunSeed(base uint64, engine, property string, i int) uint64 {
	return Mix(base, propHash(engine+"/"+property), uint64(i))
}

// Signature hashes what happened in a run, without times, ids or sequence numbers.
func Signature(res *RunResult) string {
	h := fnv.New64a()
	for _, e := range res.Events {
		switch e.Kind {
		case EvPark, EvDirect, EvEnd, EvRead:
			continue
		}
		st, na := -1, 0
		if e.W != nil {
			st, na = e.W.Status, len(e.W.Attempts)
		}
		fmt.Fprintf(h, "%s|%s|%s|%s|%d|%d|%v|%d;", e.Kind, e.Obj, e.Op, e.Outcome, st, na, e.Err != "", e.Gen)
	}
	return fmt.Sprintf("%016x", h.Sum64())
}

// FullHash hashes the complete event log including times, sequence numbers,
// park announcements and the decision list (determinism self-test).
func FullHash(res *RunResult) uint64 {
	h := fnv.New64a()
	for _, e := range res.Events {
		b, _ := json.Marshal(e)
		h.Write(b)
	}
	fmt.Fprintf(h, "%v|%d|%d", res.Decisions, res.SimNs, res.Steps)
	return h.Sum64()
}

// Nontrivial reports, per property, whether the run exercised the property in a
// non-trivial way (the rule is stated in the evidence file).
func Nontrivial(t *Trace, prop string) bool {
	switch prop {
	case "C01":
		// some ordering constraint was exercised: a sequence with >= 2 invoked actions,
		// >= 2 blocks with invocations, or a check group next to sequences
		blocks := map[string]bool{}
		perSeq := map[string]map[int]bool{}
		checks := false
		for _, in := range t.Invs {
			if in.Obj == nil {
				continue
			}
			if in.Obj.IsSeqAction() {
				blocks[in.Obj.Scope()] = true
				if perSeq[in.Obj.Parent] == nil {
					perSeq[in.Obj.Parent] = map[int]bool{}
				}
				perSeq[in.Obj.Parent][in.Obj.Idx] = true
			} else {
				checks = true
			}
		}
		if len(blocks) >= 2 || (checks && len(blocks) >= 1) {
			return true
		}
		for _, m := range perSeq {
			if len(m) >= 2 {
				return true
			}
		}
		return false
	case "C02":
		// a block with >= 2 sequences had invocations in >= 2 of them
		per := map[string]map[int]bool{}
		for _, in := range t.Invs {
			if in.Obj != nil && in.Obj.IsSeqAction() {
				if per[in.Obj.Scope()] == nil {
					per[in.Obj.Scope()] = map[int]bool{}
				}
				per[in.Obj.Scope()][in.Obj.Seq] = true
			}
		}
		for _, m := range per {
			if len(m) >= 2 {
				return true
			}
		}
		return false
	case "C03":
		// a sequence failed in a block with >= 2 sequences
		for _, l := range t.Layouts {
			f := t.FinalSnap(l.Plan)
			for bi := range l.Spec.Blocks {
				if len(l.Spec.Blocks[bi].Seqs) < 2 {
					continue
				}
				for si := range l.Spec.Blocks[bi].Seqs {
					if status(f, seqPath(l.Plan, bi, si)) == StFailed {
						return true
					}
				}
			}
		}
		return false
	case "C04":
		// a Wait on a started plan returned a plan that Failed, or that had continuous checks
		for _, wa := range startedWaits(t) {
			if wa.Snap == nil {
				continue
			}
			l := t.Layouts[wa.Plan]
			if status(wa.Snap, planPath(wa.Plan)) == StFailed || l.Spec.Cont != nil {
				return true
			}
			for bi := range l.Spec.Blocks {
				if l.Spec.Blocks[bi].Cont != nil {
					return true
				}
			}
		}
		return false
	case "C05":
		// an action had a failing invocation (retry, permanent error, wrong type or timeout)
		for _, in := range t.Invs {
			if in.FailedInv() {
				return true
			}
		}
		return false
	case "C06":
		// a bypass group ran, or a pre-check / initial continuous-check run failed
		for _, l := range t.Layouts {
			for _, sc := range l.Scopes() {
				if len(t.invsUnder(groupPath(sc, "bypass"), nil)) > 0 {
					return true
				}
				if f, r := groupFirstRunFailed(t, l, sc, "pre"); r && f {
					return true
				}
				if f, r := groupFirstRunFailed(t, l, sc, "cont"); r && f {
					return true
				}
			}
		}
		return false
	case "C07":
		// a continuous check ran at least twice, or a deferred group exists on a scope that failed
		for _, l := range t.Layouts {
			f := t.FinalSnap(l.Plan)
			for _, sc := range l.Scopes() {
				for _, a := range l.GroupActions(sc, "cont") {
					if len(t.Runs(a.Path)) >= 2 {
						return true
					}
				}
				if l.HasGroup(sc, "deferred") && status(f, sc) == StFailed {
					return true
				}
			}
		}
		return false
	case "C08":
		// a retry happened (attempt durability exercised) or a poller observed the plan mid-flight
		for _, in := range t.Invs {
			if in.FailedInv() {
				return true
			}
		}
		return len(t.Status) > 1
	case "C12":
		// a plan saw >= 2 Start calls, or an unknown id was used, or a stale start was tried
		per := map[int]int{}
		for _, a := range t.APIs {
			if a.Op == "start" {
				per[a.Plan]++
			}
			if strings.HasSuffix(a.Op, "Unknown") {
				return true
			}
		}
		for _, n := range per {
			if n >= 2 {
				return true
			}
		}
		return len(t.Res.Spec.Incs) > 0
	}
	switch prop {
	case "C09", "C10":
		// a crash left a plan durably Running (there is something to resume)
		for _, ci := range crashesOf(t) {
			for i, d := range ci.D {
				if d != nil && status(d, planPath(i)) == StRunning {
					return true
				}
			}
		}
		return false
	case "C11":
		// the store at a restart holds plans in >= 2 different statuses, or a Running plan
		for _, ci := range crashesOf(t) {
			sts := map[int]bool{}
			for i, d := range ci.D {
				if d != nil {
					sts[status(d, planPath(i))] = true
				}
			}
			if len(sts) >= 2 || sts[StRunning] {
				return true
			}
		}
		return false
	}
	return len(t.Invs) > 0
}

// ExecProbes counts rare conditions reached by a run (reach measurement).
func ExecProbes(t *Trace, probes map[string]int) {
	add := func(k string) { probes[k]++ }
	for _, l := range t.Layouts {
		f := t.FinalSnap(l.Plan)
		for bi := range l.Spec.Blocks {
			b := &l.Spec.Blocks[bi]
			nf := 0
			for si := range b.Seqs {
				if status(f, seqPath(l.Plan, bi, si)) == StFailed {
					nf++
				}
			}
			if b.Tolerated >= 0 && nf > b.Tolerated {
				add("tolerance exceeded")
				if effConc(b.Concurrency) >= 2 {
					add("tolerance exceeded with concurrency>=2")
				}
				if nf > b.Tolerated+1 {
					add("more failures than tolerance+1 (in-flight sequences finished)")
				}
			}
			if nf > 0 && (b.Tolerated < 0 || nf <= b.Tolerated) {
				add("failures within tolerance")
			}
		}
		for _, sc := range l.Scopes() {
			for _, a := range l.GroupActions(sc, "cont") {
				runs := t.Runs(a.Path)
				for k, r := range runs {
					if len(r) > 0 && r[len(r)-1].FailedInv() {
						if k == 0 {
							add("continuous check failed at its initial run")
						} else {
							add("continuous check failed at a later run")
						}
					}
				}
				if len(runs) >= 5 {
					add("continuous check ran >= 5 times")
				}
			}
			if len(t.invsUnder(groupPath(sc, "bypass"), nil)) > 0 {
				if groupAllOK(t, l, sc, "bypass") {
					add("bypass succeeded")
				} else {
					add("bypass failed")
				}
			}
		}
	}
	for _, in := range t.Invs {
		if in.CtxDone || (in.Ended && in.ExitSeq < 0) {
			add("attempt timed out")
		}
		if in.Outcome == OverrunIg {
			add("plugin ignored cancellation")
		}
		if in.Outcome == WrongType && in.ExitSeq >= 0 {
			add("wrong response type")
		}
	}
	for _, runs := range t.ByPath {
		var prev *Inv
		for _, in := range runs {
			if prev != nil && prev.Run == in.Run && prev.FailedInv() && in.Succeeded() {
				add("retry succeeded after a failed attempt")
			}
			prev = in
		}
	}
	starts := map[int][]*APIRec{}
	for _, a := range t.APIs {
		if a.Op == "start" {
			starts[a.Plan] = append(starts[a.Plan], a)
		}
	}
	for _, ss := range starts {
		for i := range ss {
			for j := i + 1; j < len(ss); j++ {
				a, b := ss[i], ss[j]
				if a.RetSeq >= 0 && b.RetSeq >= 0 && a.CallSeq < b.RetSeq && b.CallSeq < a.RetSeq {
					add("overlapping Start calls")
				}
			}
		}
	}
	if t.Res.Hang {
		add("hang")
	}
}

func traceTail(res *RunResult, n int) []string {
	var out []string
	for _, e := range res.Events {
		if e.Kind == EvPark {
			continue
		}
		s := fmt.Sprintf("%d t=%s g%d %s %s %s", e.Seq, fmtT(e.T), e.Gen, e.Kind, e.Op, e.Obj)
		if e.W != nil {
			s += fmt.Sprintf(" %s att=%d", stName(e.W.Status), len(e.W.Attempts))
		}
		if e.Outcome != "" {
			s += " " + e.Outcome
		}
		if e.Err != "" {
			s += " err=" + trunc(e.Err, 80)
		}
		if e.Note != "" {
			s += " " + trunc(strings.SplitN(e.Note, "\n", 2)[0], 100)
		}
		out = append(out, s)
	}
	if len(out) > n {
		out = append([]string{fmt.Sprintf("… %d earlier events omitted", len(out)-n)}, out[len(out)-n:]...)
	}
	return out
}

func trunc(s string, n int) string {
	if len(s) > n {
		return s[:n] + "…"
	}
	return s
}

// engine table ---------------------------------------------------------------

type engine struct {
	gen func(seed uint64, job *Job, idx int) *RunSpec
	// drive performs every run that belongs to one index of a batch
	drive func(job *Job, idx int, seed uint64, run func(*RunSpec) *RunResult, expired func() bool, res *WorkerResult)
	eval  func(res *RunResult) []Violation
	// post collects engine-specific probes
	post func(t *Trace, probes map[string]int)
}

var engines = map[string]*engine{}

func init() {
	engines["exec"] = &engine{
		gen: func(seed uint64, job *Job, idx int) *RunSpec { return GenExec(seed, job.Property, idx) },
		drive: func(job *Job, idx int, seed uint64, run func(*RunSpec) *RunResult, expired func() bool, res *WorkerResult) {
			run(GenExec(seed, job.Property, idx))
		},
		eval: EvaluateExec,
		post: ExecProbes,
	}
}

func filterProp(vs []Violation, prop string, all bool) []Violation {
	if all {
		return vs
	}
	var out []Violation
	for _, v := range vs {
		if v.Prop == prop {
			out = append(out, v)
		}
	}
	return out
}

// WorkerMain runs one job; called from TestWorker.
func WorkerMain(t *testing.T) {
	jobFile := os.Getenv("SIM_JOB")
	if jobFile == "" {
		t.Skip("SIM_JOB not set")
	}
	var job Job
	b, err := os.ReadFile(jobFile)
	if err != nil {
		t.Fatalf("job: %v", err)
	}
	if err := json.Unmarshal(b, &job); err != nil {
		t.Fatalf("job: %v", err)
	}
	if job.Engine == "store" || job.Engine == "createkill" {
		storeWorker(t, &job)
		return
	}
	if job.Engine == "failstop" {
		failStopWorker(t, &job)
		return
	}
	if job.Engine == "realkill" {
		realKillWorker(t, &job)
		return
	}
	eng := engines[job.Engine]
	if eng == nil {
		t.Fatalf("unknown engine %q", job.Engine)
	}
	res := &WorkerResult{Faults: map[string]int{}, Probes: map[string]int{}, Extra: map[string]int{}}
	start := time.Now()
	deadline := start.Add(time.Duration(job.WallMs) * time.Millisecond)
	var journal *os.File
	if job.Journal != "" {
		journal, _ = os.Create(job.Journal)
		defer journal.Close()
	}
	sigs := map[string]bool{}
	byClass := map[string]*Found{}
	eval := func(t *testing.T, s *RunSpec) (*RunResult, []Violation) {
		r := RunOne(t, s)
		if r.Harness != "" {
			return r, nil
		}
		return r, filterProp(eng.eval(r), job.Property, job.AllProps)
	}
	indices := job.Only
	next := func(k int) (int, bool) {
		if indices != nil {
			if k < len(indices) {
				return indices[k], true
			}
			return 0, false
		}
		if job.MaxRuns > 0 && k >= job.MaxRuns {
			return 0, false
		}
		return job.Offset + k*job.Stride, true
	}
	expired := func() bool { return job.WallMs > 0 && indices == nil && time.Now().After(deadline) }
	for k := 0; ; k++ {
		idx, ok := next(k)
		if !ok || expired() {
			break
		}
		seed := RunSeed(job.BaseSeed, job.Engine, job.Property, idx)
		if journal != nil {
			fmt.Fprintf(journal, "start %d %d\n", idx, seed)
		}
		if res.Runs == 0 {
			res.FirstSeed = seed
		}
		res.LastSeed = seed
		sub := 0
		// run executes one world, accounts for it and reports its violations
		run := func(spec *RunSpec) *RunResult {
			r, vs := eval(t, spec)
			res.Runs++
			sub++
			if r.Harness != "" {
				res.Harness = append(res.Harness, fmt.Sprintf("run %d.%d seed %d: %s", idx, sub, seed, trunc(r.Harness, 2000)))
				return r
			}
			res.SimNs += r.SimNs
			res.Steps += int64(r.Steps)
			res.Events += int64(len(r.Events))
			res.Detsel += r.Detsel
			for k, n := range r.Faults {
				res.Faults[k] += n
			}
			for k, n := range r.Probes {
				res.Probes[k] += n
			}
			if r.Overrun {
				res.Overruns++
				return r
			}
			if r.Hang {
				res.Hangs++
			}
			if job.Mode == "hashes" {
				res.Extra[fmt.Sprintf("run%05d.%03d", idx, sub)] = int(FullHash(r) & 0x7fffffffffff)
			}
			tr := BuildTrace(r)
			if eng.post != nil {
				eng.post(tr, res.Probes)
			}
			if Nontrivial(tr, job.Property) {
				res.Nontrivial++
				sg := Signature(r)
				if !sigs[sg] {
					sigs[sg] = true
					res.Sigs = append(res.Sigs, sg)
				}
			}
			if len(res.Samples) < 2 && (sub > 1 || job.Engine == "exec") {
				res.Samples = append(res.Samples, map[string]any{"index": idx, "seed": seed, "spec": spec, "trace_head": head(traceTail(r, 1<<30), 25)})
			}
			for _, v := range vs {
				if f := byClass[v.Class]; f != nil {
					f.Count++
					continue
				}
				f := &Found{Index: idx, Seed: seed, V: v, Count: 1}
				byClass[v.Class] = f
				res.Found = append(res.Found, f)
				rep := &Replay{Property: v.Prop, Engine: job.Engine, Class: v.Class, Msg: v.Msg, BaseSeed: job.BaseSeed, Index: idx, Seed: seed}
				min := spec
				if job.Minimize > 0 {
					m, probes := Minimize(t, spec, v.Class, eval, job.Minimize)
					f.Probes = probes
					min = m
					rep.Minimised = true
				}
				if min.Decisions == nil {
					frozen := cloneSpec(min)
					frozen.Decisions = r.Decisions
					min = frozen
				}
				rep.Spec = min
				if job.Isolated {
					rep.Trace = traceTail(r, 60)
				} else if rr, vv := eval(t, min); rr.Harness == "" && hasClass(vv, v.Class) {
					rep.Trace = traceTail(rr, 60)
					for _, x := range vv {
						if x.Class == v.Class {
							rep.Msg = x.Msg
						}
					}
				} else {
					// the minimised spec does not reproduce: fall back to the original
					frozen := cloneSpec(spec)
					frozen.Decisions = r.Decisions
					rep.Spec, rep.Minimised = frozen, false
					rep.Trace = traceTail(r, 60)
				}
				if job.ReplayDir != "" {
					name := fmt.Sprintf("%s/%s-%s-%d-%016x.json", job.ReplayDir, v.Prop, job.Engine, idx, propHash(v.Class))
					rb, _ := json.MarshalIndent(rep, "", " ")
					if err := os.WriteFile(name, rb, 0o644); err == nil {
						f.Replay = name
					}
				}
			}
			return r
		}
		eng.drive(&job, idx, seed, run, expired, res)
	}
	res.WallMs = time.Since(start).Milliseconds()
	sort.Strings(res.Sigs)
	ob, _ := json.Marshal(res)
	if err := os.WriteFile(job.Out, ob, 0o644); err != nil {
		t.Fatalf("write result: %v", err)
	}
}

func head(s []string, n int) []string {
	if len(s) > n {
		return s[:n]
	}
	return s
}

// ReplayMain replays one replay file (SIM_REPLAY) and reports whether its class
// reproduces: prints "REPRODUCED <class>" or "NOT-REPRODUCED".
func ReplayMain(t *testing.T) {
	path := os.Getenv("SIM_REPLAY")
	if path == "" {
		t.Skip("SIM_REPLAY not set")
	}
	b, err := os.ReadFile(path)
	if err != nil {
		t.Fatalf("replay: %v", err)
	}
	var rep Replay
	if err := json.Unmarshal(b, &rep); err != nil {
		t.Fatalf("replay: %v", err)
	}
	if rep.StoreW != nil || rep.Kill != nil {
		storeReplay(t, &rep)
		return
	}
	if rep.FailStop {
		failStopReplay(t, &rep)
		return
	}
	eng := engines[rep.Engine]
	if eng == nil || rep.Spec == nil {
		t.Fatalf("replay: unknown engine %q", rep.Engine)
	}
	r := RunOne(t, rep.Spec)
	if r.Harness != "" {
		fmt.Printf("HARNESS %s\n", r.Harness)
		return
	}
	vs := eng.eval(r)
	if os.Getenv("SIM_VERBOSE") != "" {
		for _, l := range traceTail(r, 1<<30) {
			fmt.Println(l)
		}
	}
	if os.Getenv("SIM_PARKS") != "" {
		for _, e := range r.Events {
			if e.Kind == EvPark {
				fmt.Printf("PARK %d t=%s g%d %v\n", e.Seq, fmtT(e.T), e.Gen, e.Labels)
			} else {
				fmt.Printf("EV %d t=%s g%d %s %s %s inv=%d %s\n", e.Seq, fmtT(e.T), e.Gen, e.Kind, e.Obj, e.Op, e.Inv, e.Note)
			}
		}
	}
	for _, v := range vs {
		if v.Class == rep.Class {
			fmt.Printf("REPRODUCED property=%s class=%q\n  %s\n  witness events %v\n", v.Prop, v.Class, v.Msg, v.Seqs)
			return
		}
	}
	fmt.Printf("NOT-REPRODUCED class=%q (classes seen: %d)\n", rep.Class, len(vs))
	for _, v := range vs {
		fmt.Printf("  saw %s\n", v.Class)
	}
}
