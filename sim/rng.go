package sim

// Rng is a SplitMix64 generator. It is the only source of pseudo-randomness in
// the simulator; every stream is derived from the run seed with Sub().
type Rng struct{ s uint64 }

func NewRng(seed uint64) *Rng { return &Rng{s: seed} }

func (r *Rng) Uint64() uint64 {
	r.s += 0x9e3779b97f4a7c15
	z := r.s
	z = (z ^ (z >> 30)) * 0xbf58476d1ce4e5b9
	z = (z ^ (z >> 27)) * 0x94d049bb133111eb
	return z ^ (z >> 31)
}

// Intn returns a value in [0,n). n must be > 0.
func (r *Rng) Intn(n int) int {
	if n <= 0 {
		panic("Rng.Intn: n <= 0")
	}
	return int(r.Uint64() % uint64(n))
}

func (r *Rng) Float() float64 { return float64(r.Uint64()>>11) / float64(1<<53) }

func (r *Rng) Bool(p float64) bool { return r.Float() < p }

// Sub derives an independent stream named by tag.
func (r *Rng) Sub(tag string) *Rng {
	h := r.s ^ 0xd6e8feb86659fd93
	for i := 0; i < len(tag); i++ {
		h ^= uint64(tag[i])
		h *= 0x100000001b3
	}
	n := &Rng{s: h}
	n.Uint64()
	return n
}

// Mix combines integers into one seed.
func Mix(vals ...uint64) uint64 {
	r := &Rng{s: 0x243f6a8885a308d3}
	for _, v := range vals {
		r.s ^= v
		r.Uint64()
	}
	return r.Uint64()
}

// Pick returns one element of xs.
func Pick[T any](r *Rng, xs []T) T { return xs[r.Intn(len(xs))] }

// Read implements io.Reader (used as the seeded uuid random source).
func (r *Rng) Read(p []byte) (int, error) {
	for i := 0; i < len(p); i += 8 {
		v := r.Uint64()
		for j := 0; j < 8 && i+j < len(p); j++ {
			p[i+j] = byte(v >> (8 * j))
		}
	}
	return len(p), nil
}
