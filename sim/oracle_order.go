package sim

import (
	"fmt"
	"sort"
	"strings"
)

// Oracles C01 (order), C02 (concurrency bound), C03 (tolerated failures).
// They only read the plug-enter/exit trace, the applied-write log, the park
// log and the final stored plan.

const inf2 = int(^uint(0) >> 2)

func blockPath(p, b int) string      { return fmt.Sprintf("p%d/b%d", p, b) }
func seqPath(p, b, s int) string     { return fmt.Sprintf("p%d/b%d/s%d", p, b, s) }
func planPath(p int) string          { return fmt.Sprintf("p%d", p) }
func under(path, prefix string) bool { return strings.HasPrefix(path, prefix+"/") }

// invsUnder returns all invocations of actions below prefix, optionally
// filtered, sorted by enter position.
func (t *Trace) invsUnder(prefix string, keep func(*Inv) bool) []*Inv {
	var out []*Inv
	for _, in := range t.Invs {
		if under(in.Path, prefix) && (keep == nil || keep(in)) {
			out = append(out, in)
		}
	}
	sort.Slice(out, func(i, j int) bool { return out[i].Enter2 < out[j].Enter2 })
	return out
}

func status(f *PlanSnap, path string) int {
	st, ok := f.Get(path)
	if !ok {
		return -9
	}
	return st.Status
}

// bypassed: the scope has a bypass group that is stored Completed.
func bypassed(l *Layout, f *PlanSnap, scope string) bool {
	return l.HasGroup(scope, "bypass") && status(f, groupPath(scope, "bypass")) == StCompleted
}

func oracleC01(t *Trace, v *vset) {
	for _, l := range t.Layouts {
		f := t.FinalSnap(l.Plan)
		pp := planPath(l.Plan)
		// r1: order inside every sequence
		for bi := range l.Spec.Blocks {
			for si := range l.Spec.Blocks[bi].Seqs {
				sp := seqPath(l.Plan, bi, si)
				all := t.invsUnder(sp, nil)
				maxIdx := -1
				var prev *Inv
				for _, in := range all {
					idx := in.Obj.Idx
					if idx < maxIdx {
						v.addf("C01", "C01.r1", "earlier action invoked after a later one", []int{in.EnterSeq}, "%s invoked after action %d of its sequence was already invoked", in.Path, maxIdx)
					}
					if prev != nil && prev.End2 >= in.Enter2 {
						v.addf("C01", "C01.r1", "two invocations of one sequence overlap", []int{prev.EnterSeq, in.EnterSeq}, "%s entered while %s (#%d) had not ended", in.Path, prev.Path, prev.K)
					}
					if idx > maxIdx {
						if idx != maxIdx+1 {
							v.addf("C01", "C01.r1", "action skipped", []int{in.EnterSeq}, "%s invoked although action %d of its sequence never was", in.Path, maxIdx+1)
						} else if maxIdx >= 0 {
							pinvs := t.ByPath[fmt.Sprintf("%s/a%d", sp, maxIdx)]
							last := pinvs[len(pinvs)-1]
							for _, pi := range pinvs {
								if pi.Enter2 < in.Enter2 {
									last = pi
								}
							}
							if !(last.Succeeded() && last.End2 < in.Enter2) {
								v.addf("C01", "C01.r1", "next action invoked although the previous one had not succeeded", []int{last.EnterSeq, in.EnterSeq}, "%s invoked but the last invocation of %s (#%d, outcome %s) had not finished successfully", in.Path, last.Path, last.K, last.Outcome)
							}
						}
						maxIdx = idx
					}
					prev = in
				}
			}
		}
		// r2: blocks one at a time in declared order
		maxEnd := -1
		var maxEndInv *Inv
		for bi := range l.Spec.Blocks {
			bp := blockPath(l.Plan, bi)
			invs := t.invsUnder(bp, nil)
			if len(invs) > 0 {
				first := invs[0]
				if maxEndInv != nil && maxEnd >= first.Enter2 {
					v.addf("C01", "C01.r2", "block entered before the previous block's invocations ended", []int{maxEndInv.EnterSeq, first.EnterSeq}, "%s entered while %s of an earlier block had not ended", first.Path, maxEndInv.Path)
				}
				if bi > 0 && f != nil {
					for bj := 0; bj < bi; bj++ {
						if st := status(f, blockPath(l.Plan, bj)); st != StCompleted {
							v.addf("C01", "C01.r2", "block ran although an earlier block did not complete", []int{first.EnterSeq}, "%s invoked but block %d ended %s", first.Path, bj, stName(st))
							break
						}
					}
				}
			}
			for _, in := range invs {
				if in.End2 > maxEnd {
					maxEnd, maxEndInv = in.End2, in
				}
			}
		}
		// r3: pre-check gate
		for bi := range l.Spec.Blocks {
			bp := blockPath(l.Plan, bi)
			seqInvs := t.invsUnder(bp, func(in *Inv) bool { return in.Obj.IsSeqAction() })
			if len(seqInvs) == 0 {
				continue
			}
			first := seqInvs[0]
			for _, scope := range []string{pp, bp} {
				for _, a := range l.GroupActions(scope, "pre") {
					var last *Inv
					for _, pi := range t.ByPath[a.Path] {
						if pi.Enter2 < first.Enter2 {
							last = pi
						}
					}
					lvl := "block"
					if scope == pp {
						lvl = "plan"
					}
					if last == nil {
						v.addf("C01", "C01.r3", lvl+" pre-check not run before sequences", []int{first.EnterSeq}, "%s invoked before pre-check %s ever ran", first.Path, a.Path)
					} else if !(last.Succeeded() && last.End2 < first.Enter2) {
						v.addf("C01", "C01.r3", lvl+" pre-check had not passed before sequences", []int{last.EnterSeq, first.EnterSeq}, "%s invoked but pre-check %s (#%d, %s) had not passed", first.Path, a.Path, last.K, last.Outcome)
					}
				}
			}
		}
		// r4 / r5: post after sequences, deferred last
		for _, scope := range l.Scopes() {
			isSeqOfScope := func(in *Inv) bool {
				return in.Obj.IsSeqAction() && (scope == pp || in.Obj.Scope() == scope)
			}
			seqInvs := t.invsUnder(scope, isSeqOfScope)
			for _, a := range l.GroupActions(scope, "post") {
				for _, pi := range t.ByPath[a.Path] {
					for _, si := range seqInvs {
						if si.End2 >= pi.Enter2 {
							v.addf("C01", "C01.r4", "post-check began before a sequence action of its scope had ended", []int{si.EnterSeq, pi.EnterSeq}, "%s entered but %s (#%d) had not ended / ran later", pi.Path, si.Path, si.K)
						}
					}
				}
			}
			ownCont := groupPath(scope, "cont")
			ownDef := groupPath(scope, "deferred")
			others := t.invsUnder(scope, func(in *Inv) bool {
				return !under(in.Path, ownCont) && !under(in.Path, ownDef)
			})
			for _, a := range l.GroupActions(scope, "deferred") {
				for _, di := range t.ByPath[a.Path] {
					for _, oi := range others {
						if oi.End2 >= di.Enter2 {
							v.addf("C01", "C01.r5", "deferred check began before "+kindOfInv(oi)+" of its scope had ended", []int{oi.EnterSeq, di.EnterSeq}, "%s entered but %s (#%d) had not ended / ran later", di.Path, oi.Path, oi.K)
						}
					}
				}
			}
		}
		// r6: a completed, non-bypassed block has run all its sequences
		if f != nil {
			for bi := range l.Spec.Blocks {
				bp := blockPath(l.Plan, bi)
				if status(f, bp) != StCompleted || bypassed(l, f, bp) || bypassed(l, f, pp) {
					continue
				}
				for si := range l.Spec.Blocks[bi].Seqs {
					if st := status(f, seqPath(l.Plan, bi, si)); st != StCompleted && st != StFailed {
						v.addf("C01", "C01.r6", "completed block left a sequence "+stName(st), nil, "block %s is Completed but %s is %s", bp, seqPath(l.Plan, bi, si), stName(st))
					}
				}
			}
		}
	}
}

func kindOfInv(in *Inv) string {
	if in.Obj == nil {
		return "an action"
	}
	if in.Obj.IsSeqAction() {
		return "a sequence action"
	}
	return "a " + in.Obj.Group + " check"
}

func effConc(c int) int {
	if c < 1 {
		return 1
	}
	return c
}

func oracleC02(t *Trace, v *vset) {
	var seqInvs []*Inv
	for _, in := range t.Invs {
		if in.Obj != nil && in.Obj.IsSeqAction() {
			seqInvs = append(seqInvs, in)
		}
	}
	sort.Slice(seqInvs, func(i, j int) bool { return seqInvs[i].Enter2 < seqInvs[j].Enter2 })
	for _, cur := range seqInvs {
		// sequences of cur's plan in flight at cur's entry (cur included)
		seqsByBlock := map[int]map[int]bool{}
		for _, o := range seqInvs {
			if o.Obj.Plan != cur.Obj.Plan || o.Gen != cur.Gen {
				continue
			}
			if o.Enter2 <= cur.Enter2 && cur.Enter2 < o.End2 {
				if seqsByBlock[o.Obj.Block] == nil {
					seqsByBlock[o.Obj.Block] = map[int]bool{}
				}
				seqsByBlock[o.Obj.Block][o.Obj.Seq] = true
			}
		}
		conc := effConc(t.Layouts[cur.Obj.Plan].Spec.Blocks[cur.Obj.Block].Concurrency)
		if n := len(seqsByBlock[cur.Obj.Block]); n > conc {
			v.addf("C02", "C02.r1", "more sequences in flight than Concurrency", []int{cur.EnterSeq}, "at entry of %s: %d sequences of block %d in flight, Concurrency %d", cur.Path, n, cur.Obj.Block, conc)
		}
		if len(seqsByBlock) > 1 {
			v.addf("C02", "C02.r2", "sequences of two blocks of one plan in flight together", []int{cur.EnterSeq}, "at entry of %s: sequences of %d blocks of plan %d in flight", cur.Path, len(seqsByBlock), cur.Obj.Plan)
		}
	}
}

func oracleC03(t *Trace, v *vset) {
	for _, l := range t.Layouts {
		f := t.FinalSnap(l.Plan)
		if f == nil {
			continue
		}
		pp := planPath(l.Plan)
		planContFailed := false
		for _, a := range l.GroupActions(pp, "cont") {
			for _, run := range t.Runs(a.Path) {
				if len(run) > 0 && run[len(run)-1].FailedInv() {
					planContFailed = true
				}
			}
		}
		failedBlock := -1
		for bi := range l.Spec.Blocks {
			b := &l.Spec.Blocks[bi]
			bp := blockPath(l.Plan, bi)
			tol, conc := b.Tolerated, effConc(b.Concurrency)
			nFailed := 0
			var withInv []bool
			for si := range b.Seqs {
				sp := seqPath(l.Plan, bi, si)
				if status(f, sp) == StFailed {
					nFailed++
				}
				withInv = append(withInv, len(t.invsUnder(sp, nil)) > 0)
			}
			// r1: bound on failed sequences
			if tol >= 0 && nFailed > tol+conc {
				v.addf("C03", "C03.r1", "more failed sequences than ToleratedFailures+Concurrency", nil, "block %s: %d sequences Failed, tolerance %d, concurrency %d", bp, nFailed, tol, conc)
			}
			// r2: serial exactness
			if conc == 1 {
				fails := 0
				stop := -1
				for si := range b.Seqs {
					if !withInv[si] {
						continue
					}
					if stop >= 0 {
						v.addf("C03", "C03.r2", "sequence ran after the failure that exceeded the tolerance (Concurrency 1)", nil, "block %s: sequence %d has invocations although sequence %d was the failure number %d (tolerance %d)", bp, si, stop, tol+1, tol)
						break
					}
					if status(f, seqPath(l.Plan, bi, si)) == StFailed {
						fails++
						if tol >= 0 && fails == tol+1 {
							stop = si
						}
					}
				}
				seenGap := -1
				for si := range b.Seqs {
					if !withInv[si] {
						if seenGap < 0 {
							seenGap = si
						}
					} else if seenGap >= 0 {
						v.addf("C03", "C03.r2", "sequence skipped while a later one ran (Concurrency 1)", nil, "block %s: sequence %d has no invocation but sequence %d has", bp, seenGap, si)
						break
					}
				}
			}
			// r3: no launch once the tolerance is exceeded (launcher model over the
			// applied terminal writes and the arrival of each sequence's first write)
			// With scheduling points inside the engine (Policy.Yields) a goroutine can be
			// held between learning of its sequence's failure and counting it, which no
			// event of the trace marks: the launcher model is only exact without them.
			if tol >= 0 && !t.Res.Spec.Policy.Yields {
				// event at which the engine learnt that the sequence's Failed state was
				// stored (the answer of the write; the write itself when writes take no time)
				var failSeqs []int
				for si := range b.Seqs {
					for _, w := range t.WByPath[seqPath(l.Plan, bi, si)] {
						if w.St.Status == StFailed {
							failSeqs = append(failSeqs, w.AckSeq)
							break
						}
					}
				}
				for si := range b.Seqs {
					sp := seqPath(l.Plan, bi, si)
					parks := t.Parks["w: UpdateSequence "+sp+" Running"]
					if len(parks) == 0 {
						continue
					}
					launch := parks[0]
					n := 0
					for _, fs := range failSeqs {
						if fs < launch {
							n++
						}
					}
					if n > tol {
						v.addf("C03", "C03.r3", "sequence launched after the tolerance was exceeded", []int{launch}, "block %s: sequence %d launched when %d sequences had durably failed (tolerance %d)", bp, si, n, tol)
					}
				}
			}
			// r4: block verdict
			bst := status(f, bp)
			ownFailed := ""
			for _, g := range []string{"pre", "cont", "post", "deferred"} {
				if l.HasGroup(bp, g) && status(f, groupPath(bp, g)) == StFailed {
					ownFailed = g
					break
				}
			}
			exceeded := tol >= 0 && nFailed > tol
			switch bst {
			case StCompleted:
				if !bypassed(l, f, bp) && !bypassed(l, f, pp) {
					if exceeded {
						v.addf("C03", "C03.r4", "block Completed although failed sequences exceed the tolerance", nil, "block %s Completed with %d failed sequences, tolerance %d", bp, nFailed, tol)
					}
					if ownFailed != "" {
						v.addf("C03", "C03.r4", "block Completed although its "+ownFailed+" check failed", nil, "block %s Completed but %s is Failed", bp, groupPath(bp, ownFailed))
					}
				}
			case StFailed:
				if !exceeded && ownFailed == "" && !planContFailed {
					v.addf("C03", "C03.r4", "block Failed without exceeding the tolerance or a failed check", nil, "block %s Failed: %d failed sequences, tolerance %d, no failed check", bp, nFailed, tol)
				}
				if failedBlock < 0 {
					failedBlock = bi
				}
			}
			// r5: nothing after a failed block
			if failedBlock >= 0 && bi > failedBlock {
				if invs := t.invsUnder(bp, nil); len(invs) > 0 {
					v.addf("C03", "C03.r5", "action invoked in a block after a Failed block", []int{invs[0].EnterSeq}, "%s invoked although block %d Failed", invs[0].Path, failedBlock)
				}
			}
		}
		// r4/r5 against the reference model: when every outcome is a function of the action alone
		// (and no fault stretched an invocation past its timeout) the verdict of every block and of
		// the plan is determined by the spec; the engine must agree.
		if specConstant(l.Spec) && t.Res.Faults["delay"] == 0 && t.Res.Faults["slow-read-reply"] == 0 && !t.Res.Hang && len(t.Crashes) == 0 && planStarted(t, l.Plan) {
			wantPlan, _, wantBlocks := refOutcomeBlocks(l.Spec)
			for bi, want := range wantBlocks {
				if got := status(f, blockPath(l.Plan, bi)); got != want {
					v.addf("C03", "C03.r4", "block verdict differs from the reference model (model "+stName(want)+", engine "+stName(got)+")", nil, "block %s", blockPath(l.Plan, bi))
				}
			}
			if got := status(f, pp); got != wantPlan {
				v.addf("C03", "C03.r5", "plan verdict differs from the reference model (model "+stName(wantPlan)+", engine "+stName(got)+")", nil, "plan %s", pp)
			}
		}
		if failedBlock >= 0 && status(f, pp) != StFailed {
			v.addf("C03", "C03.r5", "plan not Failed after a Failed block", nil, "plan %s is %s although block %d Failed", pp, stName(status(f, pp)), failedBlock)
		}
	}
}

// planStarted: some Start of the plan was accepted and a Wait on it returned.
func planStarted(t *Trace, plan int) bool {
	for _, wa := range startedWaits(t) {
		if wa.Plan == plan && wa.Snap != nil {
			return true
		}
	}
	return false
}
