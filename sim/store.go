package sim

import "testing"

// StoreSpec is the world of the store engines (E3/E4); defined in store_*.go.
type StoreSpec struct{}

func storeWorker(t *testing.T, job *Job)    { t.Fatalf("store engine not built yet") }
func storeReplay(t *testing.T, rep *Replay) { t.Fatalf("store engine not built yet") }
