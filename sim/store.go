package sim

import (
	stdctx "context"
	"encoding/hex"
	"fmt"
	"os"
	"reflect"
	"sort"
	"strings"
	"sync"
	"testing"
	"testing/synctest"
	"time"

	"github.com/anishathalye/porcupine"
	"github.com/element-of-surprise/coercion/plugins"
	"github.com/element-of-surprise/coercion/workflow"
	"github.com/element-of-surprise/coercion/workflow/storage"
	"github.com/element-of-surprise/coercion/workflow/storage/cosmosdb"
	"github.com/element-of-surprise/coercion/workflow/storage/sqlite"
	"github.com/google/uuid"
	"github.com/gostdlib/base/concurrency/worker"
	"github.com/gostdlib/base/context"
)

// ---------------------------------------------------------------------------
// E3: a Vault against a reference model (C13, C15) and, for Create/Delete,
// the in-process part of C14 (encode faults, duplicates, interleavings).
// ---------------------------------------------------------------------------

// StorePlan is one plan of a store world: a shape plus field values.
type StorePlan struct {
	Shape    PlanSpec `json:"shape"`
	Meta     int      `json:"meta"`            // 0 nil, 1 empty, 2 data
	Keys     bool     `json:"keys"`            // give every object a user key
	SubmitMs int64    `json:"submitMs"`        // submit time offset (distinct per plan)
	Status   int      `json:"status"`          // initial plan status written by Create
	BadAt    string   `json:"badAt,omitempty"` // path of the action whose request cannot be serialised
	// Steal > 0: one child object of this plan (kind StealKind: action | seq | block |
	// checks) carries the id of the corresponding object of plan Steal-1.
	Steal     int    `json:"steal,omitempty"`
	StealKind string `json:"stealKind,omitempty"`
}

// AttGen describes one generated attempt.
type AttGen struct {
	OK      bool  `json:"ok"`
	StartNs int64 `json:"s"`
	EndNs   int64 `json:"e"`
	Depth   int   `json:"depth"` // wrapped error depth
}

// StoreOp is one operation of a store client.
type StoreOp struct {
	Op       string   `json:"op"`             // create update read exists search list delete reopen
	Plan     int      `json:"plan,omitempty"` // -1 = an id that was never created
	Path     string   `json:"path,omitempty"` // update target
	Status   int      `json:"status,omitempty"`
	StartNs  int64    `json:"s,omitempty"`
	EndNs    int64    `json:"e,omitempty"`
	Reason   int      `json:"reason,omitempty"`
	Attempts []AttGen `json:"att,omitempty"`
	IDs      []int    `json:"ids,omitempty"`
	Groups   []int    `json:"groups,omitempty"`
	Statuses []int    `json:"statuses,omitempty"`
	Limit    int      `json:"limit,omitempty"`
	Consume  string   `json:"consume,omitempty"` // drain | cancel
	K        int      `json:"k,omitempty"`       // cancel after k elements
	Fault    string   `json:"fault,omitempty"`   // cosmos item-error switch active during the op
}

// StoreSpec is the world of one store run.
type StoreSpec struct {
	Backend   string      `json:"backend"` // sqlite-mem | sqlite-file | cosmos
	Seed      uint64      `json:"seed"`
	SchedSeed uint64      `json:"schedSeed"`
	Plans     []StorePlan `json:"plans"`
	Clients   [][]StoreOp `json:"clients"`
	Policy    PolicySpec  `json:"policy"`
	Conc      bool        `json:"conc,omitempty"` // several clients: linearizability check instead of op-by-op comparison
	Decisions []int       `json:"decisions,omitempty"`
}

// FullObj is a structural copy of everything stored about one object.
type FullObj struct {
	Path, Kind              string
	ID, Key                 string
	Name, Descr, Plugin     string
	TimeoutNs               int64
	Retries                 int
	Req                     string
	DelayNs, EntrNs, ExitNs int64
	Conc, Tol               int
	Group, Meta             string
	Submit                  int64
	St                      ObjState
}

type FullPlan struct{ Objs []FullObj }

func fullState(s *workflow.State) ObjState { return snapState(s) }

func fullAction(path string, a *workflow.Action) FullObj {
	o := FullObj{Path: path, Kind: "action", ID: a.ID.String(), Key: a.Key.String(), Name: a.Name, Descr: a.Descr, Plugin: a.Plugin,
		TimeoutNs: int64(a.Timeout), Retries: a.Retries, Req: snapResp(a.Req), St: snapAction(a)}
	return o
}

// sortedActions returns the actions ordered by id (used for the cosmos backend,
// whose fake client ignores ORDER BY: the order of actions is not decidable over it).
func sortedActions(as []*workflow.Action) []*workflow.Action {
	out := append([]*workflow.Action(nil), as...)
	sort.SliceStable(out, func(i, j int) bool { return out[i].ID.String() < out[j].ID.String() })
	return out
}

// FullSnapUnordered is FullSnap with the actions of every parent in id order.
func FullSnapUnordered(idx int, p *workflow.Plan) *FullPlan {
	cp := *p
	fixC := func(c *workflow.Checks) *workflow.Checks {
		if c == nil {
			return nil
		}
		cc := *c
		cc.Actions = sortedActions(c.Actions)
		return &cc
	}
	cp.BypassChecks, cp.PreChecks, cp.ContChecks, cp.PostChecks, cp.DeferredChecks = fixC(p.BypassChecks), fixC(p.PreChecks), fixC(p.ContChecks), fixC(p.PostChecks), fixC(p.DeferredChecks)
	cp.Blocks = nil
	for _, b := range p.Blocks {
		cb := *b
		cb.BypassChecks, cb.PreChecks, cb.ContChecks, cb.PostChecks, cb.DeferredChecks = fixC(b.BypassChecks), fixC(b.PreChecks), fixC(b.ContChecks), fixC(b.PostChecks), fixC(b.DeferredChecks)
		cb.Sequences = nil
		for _, s := range b.Sequences {
			cs := *s
			cs.Actions = sortedActions(s.Actions)
			cb.Sequences = append(cb.Sequences, &cs)
		}
		cp.Blocks = append(cp.Blocks, &cb)
	}
	return FullSnap(idx, &cp)
}

// snap is the snapshot function of the backend under test.
func (sw *storeWorld) snap(idx int, p *workflow.Plan) *FullPlan {
	if sw.spec.Backend == "cosmos" {
		return FullSnapUnordered(idx, p)
	}
	return FullSnap(idx, p)
}

// FullSnap copies everything a vault is supposed to keep about a plan.
func FullSnap(idx int, p *workflow.Plan) *FullPlan {
	f := &FullPlan{}
	pp := planPath(idx)
	st := fullState(p.State)
	st.Reason = int(p.Reason)
	meta := ""
	if len(p.Meta) > 0 {
		meta = hex.EncodeToString(p.Meta)
	}
	f.Objs = append(f.Objs, FullObj{Path: pp, Kind: "plan", ID: p.ID.String(), Name: p.Name, Descr: p.Descr, Group: p.GroupID.String(), Meta: meta, Submit: tsnap(p.SubmitTime), St: st})
	addChecks := func(parent string, cs [5]*workflow.Checks) {
		for gi, c := range cs {
			if c == nil {
				continue
			}
			cp := parent + "/" + groupNames[gi]
			f.Objs = append(f.Objs, FullObj{Path: cp, Kind: "checks", ID: c.ID.String(), Key: c.Key.String(), DelayNs: int64(c.Delay), St: fullState(c.State)})
			for ai, a := range c.Actions {
				f.Objs = append(f.Objs, fullAction(fmt.Sprintf("%s/a%d", cp, ai), a))
			}
		}
	}
	addChecks(pp, [5]*workflow.Checks{p.BypassChecks, p.PreChecks, p.ContChecks, p.PostChecks, p.DeferredChecks})
	for bi, b := range p.Blocks {
		bp := fmt.Sprintf("%s/b%d", pp, bi)
		f.Objs = append(f.Objs, FullObj{Path: bp, Kind: "block", ID: b.ID.String(), Key: b.Key.String(), Name: b.Name, Descr: b.Descr,
			EntrNs: int64(b.EntranceDelay), ExitNs: int64(b.ExitDelay), Conc: b.Concurrency, Tol: b.ToleratedFailures, St: fullState(b.State)})
		addChecks(bp, [5]*workflow.Checks{b.BypassChecks, b.PreChecks, b.ContChecks, b.PostChecks, b.DeferredChecks})
		for si, s := range b.Sequences {
			sp := fmt.Sprintf("%s/s%d", bp, si)
			f.Objs = append(f.Objs, FullObj{Path: sp, Kind: "sequence", ID: s.ID.String(), Key: s.Key.String(), Name: s.Name, Descr: s.Descr, St: fullState(s.State)})
			for ai, a := range s.Actions {
				f.Objs = append(f.Objs, fullAction(fmt.Sprintf("%s/a%d", sp, ai), a))
			}
		}
	}
	return f
}

// diffFull returns "" if equal, else "<kind>.<field>" of the first difference.
func diffFull(want, got *FullPlan) string {
	if got == nil {
		return "plan.missing"
	}
	if len(want.Objs) != len(got.Objs) {
		return "plan.object-count"
	}
	for i := range want.Objs {
		a, b := want.Objs[i], got.Objs[i]
		if a.Path != b.Path {
			return a.Kind + ".order"
		}
		av, bv := reflect.ValueOf(a), reflect.ValueOf(b)
		for fi := 0; fi < av.NumField(); fi++ {
			name := av.Type().Field(fi).Name
			if name == "St" {
				continue
			}
			if !reflect.DeepEqual(av.Field(fi).Interface(), bv.Field(fi).Interface()) {
				return a.Kind + "." + name
			}
		}
		if a.St.Status != b.St.Status {
			return a.Kind + ".Status"
		}
		if a.St.Start != b.St.Start {
			return a.Kind + ".Start"
		}
		if a.St.End != b.St.End {
			return a.Kind + ".End"
		}
		if a.St.Reason != b.St.Reason {
			return a.Kind + ".Reason"
		}
		if len(a.St.Attempts) != len(b.St.Attempts) {
			return a.Kind + ".Attempts(count)"
		}
		for k := range a.St.Attempts {
			x, y := a.St.Attempts[k], b.St.Attempts[k]
			switch {
			case x.Start != y.Start || x.End != y.End:
				return a.Kind + ".Attempts.times"
			case x.Resp != y.Resp:
				return a.Kind + ".Attempts.Resp"
			case !errEqual(x.Err, y.Err):
				return a.Kind + ".Attempts.Err"
			}
		}
	}
	return ""
}

// ---------------------------------------------------------------------------

func v7(r *Rng) uuid.UUID {
	var u uuid.UUID
	r.Read(u[:])
	u[6] = (u[6] & 0x0f) | 0x70
	u[8] = (u[8] & 0x3f) | 0x80
	return u
}

// materialise builds the live workflow.Plan of a StorePlan, as Submit would
// have left it (ids, NotStarted states, submit time), plus field values.
func materialise(idx int, sp *StorePlan, r *Rng) *workflow.Plan {
	p := BuildPlan(idx, &sp.Shape)
	switch sp.Meta {
	case 0:
		p.Meta = nil
	case 1:
		p.Meta = []byte{}
	default:
		p.Meta = []byte(fmt.Sprintf("meta-%d-\x00\xff", idx))
	}
	p.ID = v7(r)
	p.State = &workflow.State{Status: workflow.Status(sp.Status)}
	p.SubmitTime = time.Unix(0, epochUnixNs+sp.SubmitMs*1e6+int64(idx)).UTC()
	key := func() uuid.UUID {
		if sp.Keys {
			return v7(r)
		}
		return uuid.Nil
	}
	var doAction func(a *workflow.Action)
	doAction = func(a *workflow.Action) {
		a.ID, a.Key = v7(r), key()
		a.State = &workflow.State{}
		a.SetPlanID(p.ID)
		if a.Timeout == 0 {
			a.Timeout = 30 * time.Second
		}
	}
	doChecks := func(c *workflow.Checks) {
		if c == nil {
			return
		}
		c.ID, c.Key = v7(r), key()
		c.State = &workflow.State{}
		c.SetPlanID(p.ID)
		for _, a := range c.Actions {
			doAction(a)
		}
	}
	for _, c := range []*workflow.Checks{p.BypassChecks, p.PreChecks, p.ContChecks, p.PostChecks, p.DeferredChecks} {
		doChecks(c)
	}
	for _, b := range p.Blocks {
		b.ID, b.Key = v7(r), key()
		b.State = &workflow.State{}
		b.SetPlanID(p.ID)
		if b.Concurrency < 1 {
			b.Concurrency = 1
		}
		for _, c := range []*workflow.Checks{b.BypassChecks, b.PreChecks, b.ContChecks, b.PostChecks, b.DeferredChecks} {
			doChecks(c)
		}
		for _, s := range b.Sequences {
			s.ID, s.Key = v7(r), key()
			s.State = &workflow.State{}
			s.SetPlanID(p.ID)
			for _, a := range s.Actions {
				doAction(a)
			}
		}
	}
	return p
}

// objByPath finds the live object of a logical path.
func objByPath(idx int, p *workflow.Plan, path string) any {
	pp := planPath(idx)
	if path == pp {
		return p
	}
	find := func(parent string, cs [5]*workflow.Checks) any {
		for gi, c := range cs {
			if c == nil {
				continue
			}
			cp := parent + "/" + groupNames[gi]
			if path == cp {
				return c
			}
			for ai, a := range c.Actions {
				if path == fmt.Sprintf("%s/a%d", cp, ai) {
					return a
				}
			}
		}
		return nil
	}
	if o := find(pp, [5]*workflow.Checks{p.BypassChecks, p.PreChecks, p.ContChecks, p.PostChecks, p.DeferredChecks}); o != nil {
		return o
	}
	for bi, b := range p.Blocks {
		bp := fmt.Sprintf("%s/b%d", pp, bi)
		if path == bp {
			return b
		}
		if o := find(bp, [5]*workflow.Checks{b.BypassChecks, b.PreChecks, b.ContChecks, b.PostChecks, b.DeferredChecks}); o != nil {
			return o
		}
		for si, s := range b.Sequences {
			sp := fmt.Sprintf("%s/s%d", bp, si)
			if path == sp {
				return s
			}
			for ai, a := range s.Actions {
				if path == fmt.Sprintf("%s/a%d", sp, ai) {
					return a
				}
			}
		}
	}
	return nil
}

// childID returns the id field of the first object of the kind in the plan.
func childID(p *workflow.Plan, kind string) *uuid.UUID {
	switch kind {
	case "block":
		if len(p.Blocks) > 0 {
			return &p.Blocks[0].ID
		}
	case "seq":
		if len(p.Blocks) > 0 && len(p.Blocks[0].Sequences) > 0 {
			return &p.Blocks[0].Sequences[0].ID
		}
	case "action":
		if len(p.Blocks) > 0 && len(p.Blocks[0].Sequences) > 0 && len(p.Blocks[0].Sequences[0].Actions) > 0 {
			return &p.Blocks[0].Sequences[0].Actions[0].ID
		}
	case "checks":
		for _, c := range []*workflow.Checks{p.BypassChecks, p.PreChecks, p.ContChecks, p.PostChecks, p.DeferredChecks} {
			if c != nil {
				return &c.ID
			}
		}
	}
	return nil
}

// sharesChildID: the plan carries the id of an object of another plan that is in
// the model (stored), or the other way round.
func (sw *storeWorld) sharesChildID(i int) (other int, yes bool) {
	for k := range sw.spec.Plans {
		j := sw.spec.Plans[k].Steal - 1
		if j < 0 || j == k {
			continue
		}
		a, b := k, j // k carries an id of j
		if a != i && b != i {
			continue
		}
		o := a
		if a == i {
			o = b
		}
		if _, stored := sw.model[o]; !stored {
			continue
		}
		if d, s := childID(sw.live[a], sw.spec.Plans[k].StealKind), childID(sw.live[b], sw.spec.Plans[k].StealKind); d != nil && s != nil && *d == *s {
			return o, true
		}
	}
	return 0, false
}

func tFromNs(ns int64) time.Time {
	if ns == 0 {
		return time.Time{}
	}
	return time.Unix(0, ns).UTC()
}

func genAttempts(path string, ptr bool, gens []AttGen) []*workflow.Attempt {
	var out []*workflow.Attempt
	for k, g := range gens {
		at := &workflow.Attempt{Start: tFromNs(g.StartNs), End: tFromNs(g.EndNs)}
		if g.OK {
			r := Resp{Path: path, Inv: k, Note: "stored \"quoted\" é"}
			if ptr {
				at.Resp = &r
			} else {
				at.Resp = r
			}
		} else {
			e := &plugins.Error{Code: plugins.ErrCode(10 + k), Message: fmt.Sprintf("attempt %d of %s failed", k, path), Permanent: k%2 == 1}
			cur := e
			for d := 0; d < g.Depth; d++ {
				cur.Wrapped = &plugins.Error{Code: plugins.ErrCode(100 + d), Message: fmt.Sprintf("cause %d", d), Permanent: d%2 == 0}
				cur = cur.Wrapped
			}
			at.Err = e
		}
		out = append(out, at)
	}
	return out
}

// StoreResult is what one store run produced.
type StoreResult struct {
	Violations []Violation
	Ops        int
	SimNs      int64
	Harness    string
	Decisions  []int
	Probes     map[string]int
	Trace      []string
	HistoryLen int
	LinUnknown bool
	hist       []porcupine.Operation
}

type storeWorld struct {
	spec    *StoreSpec
	w       *World
	t       *testing.T
	vault   storage.Vault
	ctl     *cosmosdb.FakeControl
	dir     string
	live    []*workflow.Plan
	mu      sync.Mutex
	model   map[int]*FullPlan // sequential reference model (seq mode)
	v       *vset
	res     *StoreResult
	unknown uuid.UUID
	sem     chan struct{}
	hist    []porcupine.Operation
}

func (sw *storeWorld) tracef(format string, args ...any) {
	sw.mu.Lock()
	sw.res.Trace = append(sw.res.Trace, fmt.Sprintf("t=%s ", fmtT(sw.w.Now()))+fmt.Sprintf(format, args...))
	sw.mu.Unlock()
}

func (sw *storeWorld) probe(k string) {
	sw.mu.Lock()
	sw.res.Probes[k]++
	sw.mu.Unlock()
}

func (sw *storeWorld) open() (storage.Vault, error) {
	ctx := context.Background()
	reg := NewRegistry(nil, 0, nil)
	switch sw.spec.Backend {
	case "sqlite-file":
		return sqlite.New(ctx, sw.dir, reg)
	case "cosmos":
		v, ctl := cosmosdb.NewFakeVault(reg)
		sw.ctl = ctl
		return v, nil
	default:
		return sqlite.New(ctx, "", reg, sqlite.WithInMemory())
	}
}

const opBudget = time.Hour

// inVault runs f while holding the harness' one-at-a-time token, so that no
// goroutine ever blocks on the vault's own mutex (which synctest cannot see).
// It reports false if f did not finish within the simulated budget.
func (sw *storeWorld) inVault(f func()) bool {
	select {
	case sw.sem <- struct{}{}:
	case <-time.After(opBudget):
		return false
	}
	done := make(chan struct{})
	go func() {
		defer close(done)
		f()
	}()
	select {
	case <-done:
		<-sw.sem
		return true
	case <-time.After(opBudget):
		// the operation is stuck inside the vault; the token is never returned
		return false
	}
}

func (sw *storeWorld) id(i int) uuid.UUID {
	if i < 0 || i >= len(sw.live) {
		return sw.unknown
	}
	return sw.live[i].ID
}

func be(sw *storeWorld) string { return sw.spec.Backend }

// expectList computes what Search/List must return from the model.
type listRow struct {
	idx    int
	id     string
	group  string
	name   string
	descr  string
	submit int64
	status int
}

func (sw *storeWorld) modelRows() []listRow {
	var rows []listRow
	for i, m := range sw.model {
		o := m.Objs[0]
		rows = append(rows, listRow{idx: i, id: o.ID, group: o.Group, name: o.Name, descr: o.Descr, submit: o.Submit, status: o.St.Status})
	}
	sort.Slice(rows, func(a, b int) bool { return rows[a].submit > rows[b].submit })
	return rows
}

func contains[T comparable](xs []T, x T) bool {
	for _, y := range xs {
		if x == y {
			return true
		}
	}
	return false
}

func (sw *storeWorld) doOp(ci int, op StoreOp) {
	w := sw.w
	if !w.Park(0, fmt.Sprintf("op: c%d %s p%d %s", ci, op.Op, op.Plan, op.Path)) {
		return
	}
	sw.mu.Lock()
	sw.res.Ops++
	sw.mu.Unlock()
	ctx := context.Background()
	B := be(sw)
	stuck := func(what string) {
		sw.v.addf("C15", "C15.r4", B+" "+what+" never completed (an earlier stream still holds the connection?)", nil, "client %d op %s", ci, op.Op)
	}
	callSeq := w.Log(Event{Kind: EvAPICall, Client: ci, Op: op.Op, Obj: planPath(op.Plan)})
	switch op.Op {
	case "create":
		if op.Plan < 0 || op.Plan >= len(sw.live) {
			return
		}
		p := sw.live[op.Plan]
		if sw.spec.Conc {
			// concurrent clients never share a mutable object: every Create writes a pristine copy
			cp := *p
			cp.State = &workflow.State{Status: workflow.NotStarted}
			p = &cp
		}
		var err error
		if op.Fault != "" && sw.ctl != nil {
			sw.ctl.SetCreateItemErr(true)
		}
		submitted := sw.snap(op.Plan, p) // taken before the call: Create may modify the object it is given
		ok := sw.inVault(func() { err = sw.vault.Create(ctx, p) })
		if op.Fault != "" && sw.ctl != nil {
			sw.ctl.SetCreateItemErr(false)
		}
		if !ok {
			stuck("Create")
			return
		}
		retSeq := w.Log(Event{Kind: EvAPIRet, Client: ci, Op: op.Op, Obj: planPath(op.Plan), Err: errStr(err)})
		sw.tracef("c%d Create(p%d) = %v", ci, op.Plan, errStr(err))
		if sw.spec.Conc {
			sw.record(ci, op, callSeq, retSeq, err == nil, 0, false)
			return
		}
		_, exists := sw.model[op.Plan]
		bad := sw.spec.Plans[op.Plan].BadAt != ""
		switch {
		case exists:
			sw.probe("create of an existing id")
			if err == nil {
				sw.v.addf("C14", "C14.r6", B+" Create of an existing id succeeded", nil, "plan p%d", op.Plan)
			}
		case bad || op.Fault != "":
			sw.probe("create with an encode fault or item error")
			if err == nil {
				// r5: a successful Create implies the stored plan equals the submitted one
				got, rerr := sw.readFull(op.Plan)
				if rerr != nil || diffFull(submitted, got) != "" {
					where := "unreadable"
					if rerr == nil {
						where = diffFull(submitted, got)
					}
					sw.v.addf("C14", "C14.r5", B+" Create returned nil although an object could not be stored ("+badKind(sw.spec.Plans[op.Plan].BadAt, op.Fault)+"): stored plan differs at "+where, nil, "plan p%d bad at %s", op.Plan, sw.spec.Plans[op.Plan].BadAt)
				}
				sw.model[op.Plan] = submitted
			} else if n := sw.traces(op.Plan); n != "" {
				sw.v.addf("C14", "C14.r5", B+" failed Create left traces of the plan ("+badKind(sw.spec.Plans[op.Plan].BadAt, op.Fault)+")", nil, "plan p%d: %s", op.Plan, n)
			}
		default:
			if other, shares := sw.sharesChildID(op.Plan); shares {
				// A child object carries the id of an object of another stored plan. Whether such a
				// Create is refused is the vault's business; either way it is all-or-nothing and
				// leaves the other plan exactly as it was.
				sw.probe("create with a child id of another stored plan")
				if err != nil {
					if n := sw.traces(op.Plan); n != "" {
						sw.v.addf("C14", "C14.r5", B+" failed Create left traces of the plan (child id of another plan)", nil, "plan p%d: %s", op.Plan, n)
					}
				} else {
					sw.model[op.Plan] = submitted
					if got, rerr := sw.readFull(op.Plan); rerr != nil || diffFull(submitted, got) != "" {
						sw.v.addf("C14", "C14.r5", B+" Create succeeded but the stored plan differs from the submitted one (child id of another plan)", nil, "plan p%d", op.Plan)
					}
				}
				if got, rerr := sw.readFull(other); rerr != nil || diffFull(sw.model[other], got) != "" {
					sw.v.addf("C14", "C14.r6", B+" Create of a plan with a child id of another plan altered that plan", nil, "created p%d (err=%v), plan p%d changed", op.Plan, err, other)
				}
				return
			}
			if err != nil {
				sw.v.addf("C13", "C13.r1", B+" Create of a well-formed plan failed", nil, "plan p%d: %v", op.Plan, err)
				return
			}
			sw.model[op.Plan] = submitted
		}
	case "update":
		if _, exists := sw.model[op.Plan]; !exists && !sw.spec.Conc {
			return
		}
		p := sw.live[op.Plan]
		obj := objByPath(op.Plan, p, op.Path)
		var err error
		st := &workflow.State{Status: workflow.Status(op.Status), Start: tFromNs(op.StartNs), End: tFromNs(op.EndNs)}
		apply := func(cur *workflow.State) *workflow.State {
			st.ETag = cur.ETag
			return st
		}
		ok := true
		switch o := obj.(type) {
		case *workflow.Plan:
			if sw.spec.Conc {
				cp := *o
				cp.State = &workflow.State{Status: st.Status, Start: st.Start, End: st.End}
				ok = sw.inVault(func() { err = sw.vault.UpdatePlan(ctx, &cp) })
				break
			}
			o.State = apply(o.State)
			o.Reason = workflow.FailureReason(op.Reason)
			ok = sw.inVault(func() { err = sw.vault.UpdatePlan(ctx, o) })
		case *workflow.Block:
			o.State = apply(o.State)
			ok = sw.inVault(func() { err = sw.vault.UpdateBlock(ctx, o) })
		case *workflow.Checks:
			o.State = apply(o.State)
			ok = sw.inVault(func() { err = sw.vault.UpdateChecks(ctx, o) })
		case *workflow.Sequence:
			o.State = apply(o.State)
			ok = sw.inVault(func() { err = sw.vault.UpdateSequence(ctx, o) })
		case *workflow.Action:
			o.State = apply(o.State)
			o.Attempts = genAttempts(op.Path, strings.HasSuffix(o.Plugin, "ptr"), op.Attempts)
			ok = sw.inVault(func() { err = sw.vault.UpdateAction(ctx, o) })
		default:
			return
		}
		if !ok {
			stuck("Update")
			return
		}
		retSeq := w.Log(Event{Kind: EvAPIRet, Client: ci, Op: op.Op, Obj: op.Path, Err: errStr(err)})
		sw.tracef("c%d Update(%s -> %s, %d attempts) = %v", ci, op.Path, stName(op.Status), len(op.Attempts), errStr(err))
		if sw.spec.Conc {
			sw.record(ci, op, callSeq, retSeq, err == nil, op.StartNs, false)
			return
		}
		if err != nil {
			sw.v.addf("C13", "C13.r1", B+" update of an existing object failed", nil, "%s: %v", op.Path, err)
			return
		}
		// an update carries the object's state (status, times, reason, attempts) and nothing else
		var id string
		var nst ObjState
		switch o := obj.(type) {
		case *workflow.Plan:
			id, nst = o.ID.String(), snapState(o.State)
			nst.Reason = int(o.Reason)
		case *workflow.Block:
			id, nst = o.ID.String(), snapState(o.State)
		case *workflow.Checks:
			id, nst = o.ID.String(), snapState(o.State)
		case *workflow.Sequence:
			id, nst = o.ID.String(), snapState(o.State)
		case *workflow.Action:
			id, nst = o.ID.String(), snapAction(o)
		}
		m := sw.model[op.Plan]
		for k := range m.Objs {
			if m.Objs[k].ID == id {
				m.Objs[k].St = nst
			}
		}
	case "read":
		var got *workflow.Plan
		var err error
		if !sw.inVault(func() { got, err = sw.vault.Read(ctx, sw.id(op.Plan)) }) {
			stuck("Read")
			return
		}
		retSeq := w.Log(Event{Kind: EvAPIRet, Client: ci, Op: op.Op, Obj: planPath(op.Plan), Err: errStr(err)})
		sw.tracef("c%d Read(p%d) = plan? %v, err %v", ci, op.Plan, got != nil, errStr(err))
		if sw.spec.Conc {
			found := err == nil && got != nil && got.ID == sw.id(op.Plan)
			var val int64
			if found && got.State != nil {
				val = tsnap(got.State.Start)
			}
			sw.record(ci, op, callSeq, retSeq, found, val, true)
			return
		}
		want, exists := sw.model[op.Plan]
		if !exists {
			sw.probe("read of a missing id")
			if err == nil {
				shape := "nil plan"
				if got != nil {
					shape = "a non-nil plan"
				}
				sw.v.addf("C13", "C13.r2", B+" Read of a never-created or deleted id returned no error ("+shape+")", nil, "plan p%d", op.Plan)
			} else if got != nil {
				sw.v.addf("C13", "C13.r2", B+" Read of a missing id returned an error and a non-nil plan", nil, "plan p%d", op.Plan)
			}
			return
		}
		if err != nil || got == nil {
			sw.v.addf("C13", "C13.r1", B+" Read of a stored plan failed", nil, "plan p%d: %v", op.Plan, err)
			return
		}
		if d := diffFull(want, sw.snap(op.Plan, got)); d != "" {
			sw.v.addf("C13", "C13.r1", B+" Read differs from what was last written: "+d, nil, "plan p%d", op.Plan)
		}
	case "exists":
		var got bool
		var err error
		if !sw.inVault(func() { got, err = sw.vault.Exists(ctx, sw.id(op.Plan)) }) {
			stuck("Exists")
			return
		}
		retSeq := w.Log(Event{Kind: EvAPIRet, Client: ci, Op: op.Op, Obj: planPath(op.Plan), Err: errStr(err)})
		sw.tracef("c%d Exists(p%d) = %v, %v", ci, op.Plan, got, errStr(err))
		if sw.spec.Conc {
			sw.record(ci, op, callSeq, retSeq, err == nil && got, 0, true)
			return
		}
		_, exists := sw.model[op.Plan]
		if err != nil {
			sw.v.addf("C15", "C15.r1", B+" Exists failed", nil, "plan p%d: %v", op.Plan, err)
		} else if got != exists {
			sw.v.addf("C15", "C15.r1", fmt.Sprintf("%s Exists returned %v for a plan that %s", B, got, map[bool]string{true: "is stored", false: "is not stored"}[exists]), nil, "plan p%d", op.Plan)
		}
	case "delete":
		var err error
		if op.Fault != "" && sw.ctl != nil {
			sw.ctl.SetDeleteItemErr(true)
		}
		ok := sw.inVault(func() { err = sw.vault.Delete(ctx, sw.id(op.Plan)) })
		if op.Fault != "" && sw.ctl != nil {
			sw.ctl.SetDeleteItemErr(false)
		}
		if !ok {
			stuck("Delete")
			return
		}
		retSeq := w.Log(Event{Kind: EvAPIRet, Client: ci, Op: op.Op, Obj: planPath(op.Plan), Err: errStr(err)})
		sw.tracef("c%d Delete(p%d) = %v", ci, op.Plan, errStr(err))
		if sw.spec.Conc {
			sw.record(ci, op, callSeq, retSeq, err == nil, 0, false)
			return
		}
		_, exists := sw.model[op.Plan]
		if !exists {
			return // deleting what is not there: unspecified result, must only leave the others alone (checked by later reads)
		}
		if op.Fault != "" {
			if err == nil {
				delete(sw.model, op.Plan)
			} else {
				// r7 under an item error: all of the plan or none of it remains
				got, rerr := sw.readFull(op.Plan)
				if rerr == nil && diffFull(sw.model[op.Plan], got) == "" {
					return
				}
				if n := sw.traces(op.Plan); n != "" || rerr == nil {
					sw.v.addf("C14", "C14.r7", B+" failed Delete left the plan partly deleted", nil, "plan p%d: %s", op.Plan, n)
				}
				delete(sw.model, op.Plan)
			}
			return
		}
		if err != nil {
			sw.v.addf("C14", "C14.r7", B+" Delete of a stored plan failed", nil, "plan p%d: %v", op.Plan, err)
			return
		}
		delete(sw.model, op.Plan)
		if n := sw.traces(op.Plan); n != "" {
			sw.v.addf("C14", "C14.r7", B+" Delete left objects of the plan behind", nil, "plan p%d: %s", op.Plan, n)
		}
	case "search", "list":
		sw.doStream(ci, op, callSeq)
	case "reopen":
		if sw.spec.Backend != "sqlite-file" {
			return
		}
		// abandon the vault without Close and open a new one on the same directory
		nv, err := sw.open()
		if err != nil {
			sw.v.addf("C13", "C13.r3", B+" cannot reopen the store", nil, "%v", err)
			return
		}
		sw.vault = nv
		sw.sem = make(chan struct{}, 1)
		sw.probe("reopen")
		sw.tracef("c%d Reopen", ci)
		for i, want := range sw.model {
			got, err := sw.readFull(i)
			if err != nil {
				sw.v.addf("C13", "C13.r3", B+" acknowledged plan not readable after reopening the store", nil, "plan p%d: %v", i, err)
			} else if d := diffFull(want, got); d != "" {
				sw.v.addf("C13", "C13.r3", B+" acknowledged write lost after reopening the store: "+d, nil, "plan p%d", i)
			}
		}
	}
}

func badKind(badAt, fault string) string {
	if fault != "" {
		return "item error"
	}
	switch {
	case strings.Contains(badAt, "/s"):
		return "sequence action"
	case badAt != "":
		parts := strings.Split(badAt, "/")
		if len(parts) >= 3 {
			lvl := "plan"
			if len(parts) == 4 {
				lvl = "block"
			}
			return lvl + " " + parts[len(parts)-2] + " check action"
		}
	}
	return "?"
}

func (sw *storeWorld) readFull(i int) (*FullPlan, error) {
	var got *workflow.Plan
	var err error
	if !sw.inVault(func() { got, err = sw.vault.Read(context.Background(), sw.id(i)) }) {
		return nil, fmt.Errorf("read never completed")
	}
	if err != nil {
		return nil, err
	}
	if got == nil || got.ID != sw.id(i) {
		return nil, fmt.Errorf("no such plan")
	}
	return sw.snap(i, got), nil
}

// traces reports rows that still belong to plan i (sqlite backends only; the
// cosmos fake is probed through Read/Exists).
func (sw *storeWorld) traces(i int) string {
	p := sw.live[i]
	ids := map[string]string{}
	for _, o := range FullSnap(i, p).Objs {
		ids[o.ID] = o.Path
	}
	// an id this plan shares with another stored plan is that plan's row, not a trace of this one
	for j, m := range sw.model {
		if j == i {
			continue
		}
		for _, o := range m.Objs {
			delete(ids, o.ID)
		}
	}
	sv, ok := sw.vault.(*sqlite.Vault)
	if !ok {
		var ex bool
		var err error
		sw.inVault(func() { ex, err = sw.vault.Exists(context.Background(), p.ID) })
		if err == nil && ex {
			return "Exists still reports the plan"
		}
		var got *workflow.Plan
		sw.inVault(func() { got, err = sw.vault.Read(context.Background(), p.ID) })
		if err == nil && got != nil && got.ID == p.ID {
			return "the plan can still be read"
		}
		return ""
	}
	var found []string
	sw.inVault(func() {
		conn, err := sv.Pool().Take(stdctx.Background())
		if err != nil {
			return
		}
		defer sv.Pool().Put(conn)
		for _, table := range []string{"plans", "blocks", "checks", "sequences", "actions"} {
			stmt, _, err := conn.PrepareTransient("SELECT id FROM " + table)
			if err != nil {
				continue
			}
			for {
				has, err := stmt.Step()
				if err != nil || !has {
					break
				}
				if path, ok := ids[stmt.ColumnText(0)]; ok {
					found = append(found, table+":"+path)
				}
			}
			stmt.Finalize()
		}
	})
	sort.Strings(found)
	if len(found) > 6 {
		found = append(found[:6], fmt.Sprintf("… %d rows", len(found)))
	}
	return strings.Join(found, " ")
}

func (sw *storeWorld) doStream(ci int, op StoreOp, callSeq int) {
	w := sw.w
	B := be(sw)
	ctx, cancel := stdctx.WithCancel(context.Background())
	defer cancel()
	var ch chan storage.Stream[storage.ListResult]
	var err error
	f := storage.Filters{}
	for _, i := range op.IDs {
		f.ByIDs = append(f.ByIDs, sw.id(i))
	}
	for _, g := range op.Groups {
		f.ByGroupIDs = append(f.ByGroupIDs, groupUUID(g))
	}
	for _, s := range op.Statuses {
		f.ByStatus = append(f.ByStatus, workflow.Status(s))
	}
	what := "Search"
	ok := true
	if op.Op == "list" {
		what = "List"
		ok = sw.inVault(func() { ch, err = sw.vault.List(ctx, op.Limit) })
	} else {
		ok = sw.inVault(func() { ch, err = sw.vault.Search(ctx, f) })
	}
	if !ok {
		sw.v.addf("C15", "C15.r4", B+" "+what+" never returned (an earlier stream still holds the connection?)", nil, "client %d", ci)
		return
	}
	shape := filterShape(op)
	coarse := "by status only"
	switch {
	case op.Op == "list":
		coarse = shape
	case len(op.IDs) > 0:
		coarse = "by ids"
	case len(op.Groups) > 0:
		coarse = "by group ids"
	}
	if err != nil {
		sw.tracef("c%d %s(%s) = error %v", ci, what, shape, err)
		sw.v.addf("C15", "C15.r2", B+" "+what+" failed ("+coarse+")", nil, "%s: %v", shape, err)
		return
	}
	var got []storage.ListResult
	closed := false
	cancelled := false
	var streamErr error
	for n := 0; ; n++ {
		if op.Consume == "cancel" && n == op.K && !cancelled {
			cancel()
			cancelled = true
			sw.probe("consumer cancelled a stream")
		}
		if !w.Park(0, fmt.Sprintf("op: c%d stream-elem %d", ci, n)) {
			return
		}
		timedOut := false
		select {
		case item, ok := <-ch:
			if !ok {
				closed = true
			} else if item.Err != nil {
				streamErr = item.Err
			} else {
				got = append(got, item.Result)
			}
		case <-time.After(opBudget):
			timedOut = true // nothing arrived within the budget and the stream is not closed
		}
		if closed || timedOut || n > 10000 {
			break
		}
	}
	w.Log(Event{Kind: EvAPIRet, Client: ci, Op: op.Op, Note: fmt.Sprintf("%d results closed=%v", len(got), closed)})
	if cancelled {
		// how many elements still arrive after a cancellation is decided by the Go runtime (a select
		// between ctx.Done and the send): any prefix is legal, so the count is not part of the trace
		sw.tracef("c%d %s(%s) -> cancelled after %d, closed=%v", ci, what, shape, op.K, closed)
	} else {
		sw.tracef("c%d %s(%s) -> %d results, closed=%v err=%v", ci, what, shape, len(got), closed, streamErr)
	}
	if !closed {
		mode := "after the consumer drained it"
		if cancelled {
			mode = "after the consumer cancelled"
		}
		sw.v.addf("C15", "C15.r4", B+" "+what+" stream never closed "+mode, nil, "%d results delivered", len(got))
	}
	if sw.spec.Conc {
		return
	}
	// expected rows
	var want []listRow
	for _, r := range sw.modelRows() {
		if op.Op == "search" {
			if len(op.IDs) > 0 {
				in := false
				for _, i := range op.IDs {
					if i == r.idx {
						in = true
					}
				}
				if !in {
					continue
				}
			}
			if len(op.Groups) > 0 {
				in := false
				for _, g := range op.Groups {
					if groupUUID(g).String() == r.group {
						in = true
					}
				}
				if !in {
					continue
				}
			}
			if len(op.Statuses) > 0 && !contains(op.Statuses, r.status) {
				continue
			}
		}
		want = append(want, r)
	}
	if op.Op == "list" && op.Limit > 0 && len(want) > op.Limit {
		want = want[:op.Limit]
	}
	if sw.spec.Backend == "cosmos" {
		// the fake client ignores status/group predicates and ORDER BY: only membership by id,
		// List cardinality and stream closure are decidable over it
		if op.Op == "search" && (len(op.Groups) > 0 || len(op.Statuses) > 0) {
			return
		}
		if !cancelled && streamErr == nil && len(got) != len(want) {
			sw.v.addf("C15", "C15.r2", fmt.Sprintf("%s %s returned a wrong number of plans (%s)", B, what, shape), nil, "got %d want %d", len(got), len(want))
		}
		return
	}
	if streamErr != nil && !cancelled {
		sw.v.addf("C15", "C15.r2", B+" "+what+" stream delivered an error ("+coarse+")", nil, "%s: %v", shape, streamErr)
		return
	}
	if len(want) > 0 && len(want) < len(sw.model) {
		sw.probe("filter matched a proper non-empty subset")
	}
	rule := "C15.r2"
	if op.Op == "list" {
		rule = "C15.r3"
	}
	if cancelled {
		// any prefix of the expected sequence is acceptable
		if len(got) > len(want) {
			sw.v.addf("C15", rule, B+" "+what+" returned more plans than match ("+shape+")", nil, "got %d want <= %d", len(got), len(want))
			return
		}
		want = want[:len(got)]
	}
	if len(got) != len(want) {
		kind := "too few"
		if len(got) > len(want) {
			kind = "too many"
		}
		sw.v.addf("C15", rule, fmt.Sprintf("%s %s returned %s plans (%s)", B, what, kind, shape), nil, "got %d want %d", len(got), len(want))
		return
	}
	for k := range want {
		g, x := got[k], want[k]
		switch {
		case g.ID.String() != x.id:
			in := false
			for _, y := range want {
				if y.id == g.ID.String() {
					in = true
				}
			}
			if in {
				sw.v.addf("C15", rule, B+" "+what+" results are not ordered newest submission first ("+shape+")", nil, "position %d", k)
			} else {
				sw.v.addf("C15", rule, B+" "+what+" returned a plan that does not match ("+shape+")", nil, "position %d", k)
			}
			return
		case g.Name != x.name || g.Descr != x.descr || g.GroupID.String() != x.group || tsnap(g.SubmitTime) != x.submit:
			sw.v.addf("C15", rule, B+" "+what+" result carries wrong name/descr/group/submit time", nil, "position %d", k)
			return
		case g.State == nil || int(g.State.Status) != x.status:
			sw.v.addf("C15", rule, B+" "+what+" result carries a wrong status", nil, "position %d", k)
			return
		}
	}
}

func filterShape(op StoreOp) string {
	if op.Op == "list" {
		switch {
		case op.Limit == 0:
			return "no limit"
		default:
			return "with a limit"
		}
	}
	var parts []string
	if n := len(op.IDs); n > 0 {
		parts = append(parts, map[bool]string{true: "one id", false: "several ids"}[n == 1])
	}
	if n := len(op.Groups); n > 0 {
		parts = append(parts, map[bool]string{true: "one group", false: "several groups"}[n == 1])
	}
	if n := len(op.Statuses); n > 0 {
		parts = append(parts, map[bool]string{true: "one status", false: "several statuses"}[n == 1])
	}
	return strings.Join(parts, " + ")
}

// ---------------------------------------------------------------------------
// linearizability (concurrent clients)
// ---------------------------------------------------------------------------

type linIn struct {
	op   string
	plan int
	val  int64
}
type linOut struct {
	ok  bool
	val int64
}
type linState struct {
	exists bool
	val    int64
}

func (sw *storeWorld) record(ci int, op StoreOp, call, ret int, ok bool, val int64, isRead bool) {
	sw.mu.Lock()
	defer sw.mu.Unlock()
	in := linIn{op: op.Op, plan: op.Plan, val: val}
	if isRead {
		in.val = 0
	}
	sw.hist = append(sw.hist, porcupine.Operation{ClientId: ci, Input: in, Call: int64(call), Output: linOut{ok: ok, val: val}, Return: int64(ret)})
}

var linModel = porcupine.Model{
	Partition: func(history []porcupine.Operation) [][]porcupine.Operation {
		m := map[int][]porcupine.Operation{}
		var keys []int
		for _, o := range history {
			k := o.Input.(linIn).plan
			if _, ok := m[k]; !ok {
				keys = append(keys, k)
			}
			m[k] = append(m[k], o)
		}
		sort.Ints(keys)
		var out [][]porcupine.Operation
		for _, k := range keys {
			out = append(out, m[k])
		}
		return out
	},
	Init: func() interface{} { return linState{} },
	Step: func(state, input, output interface{}) (bool, interface{}) {
		s := state.(linState)
		in := input.(linIn)
		out := output.(linOut)
		switch in.op {
		case "create":
			if s.exists {
				return !out.ok, s
			}
			if !out.ok {
				return false, s
			}
			return true, linState{exists: true, val: 0}
		case "delete":
			if s.exists {
				if !out.ok {
					return false, s
				}
				return true, linState{}
			}
			return true, s // unspecified result
		case "update":
			if s.exists {
				return out.ok, linState{exists: true, val: in.val}
			}
			return true, s
		case "read":
			if !s.exists {
				return !out.ok, s
			}
			return out.ok && out.val == s.val, s
		case "exists":
			return out.ok == s.exists, s
		}
		return true, s
	},
	Equal: func(a, b interface{}) bool { return a.(linState) == b.(linState) },
}

// ---------------------------------------------------------------------------

// RunStore executes one store world in a bubble.
func RunStore(t *testing.T, spec *StoreSpec) (res *StoreResult) {
	res = &StoreResult{Probes: map[string]int{}}
	var dir string
	if spec.Backend == "sqlite-file" {
		d, err := os.MkdirTemp("", "verif-store-")
		if err != nil {
			res.Harness = err.Error()
			return res
		}
		dir = d
		defer os.RemoveAll(d)
	}
	defer func() {
		if r := recover(); r != nil {
			msg := fmt.Sprint(r)
			if strings.Contains(msg, "deadlock") || strings.Contains(msg, "blocked goroutines remain") {
				res.Probes["bubble ended with blocked goroutines"]++
				return
			}
			res.Harness = "panic outside bubble: " + msg
		}
	}()
	synctest.Test(t, func(t *testing.T) {
		defer func() {
			if r := recover(); r != nil {
				res.Harness = fmt.Sprintf("panic in store controller: %v", r)
			}
		}()
		runStoreInBubble(t, spec, dir, res)
	})
	if spec.Conc && res.Harness == "" && len(res.hist) > 0 {
		switch porcupine.CheckOperationsTimeout(linModel, res.hist, 20*time.Second) {
		case porcupine.Illegal:
			res.Violations = append(res.Violations, Violation{Prop: "C13", Rule: "C13.r4", Class: "C13.r4 " + spec.Backend + " concurrent history is not linearizable", Msg: fmt.Sprintf("%d operations", len(res.hist))})
		case porcupine.Unknown:
			res.LinUnknown = true
		}
	}
	return res
}

func runStoreInBubble(t *testing.T, spec *StoreSpec, dir string, res *StoreResult) {
	rs := &RunSpec{SchedSeed: spec.SchedSeed, Policy: spec.Policy, Decisions: spec.Decisions}
	w := NewWorld(rs)
	go w.schedulerLoop()
	pool, err := worker.New(stdctx.Background(), "storepool", worker.WithSize(64))
	if err != nil {
		res.Harness = err.Error()
		return
	}
	worker.Set(pool)
	sw := &storeWorld{spec: spec, w: w, t: t, dir: dir, model: map[int]*FullPlan{}, v: &vset{}, res: res, sem: make(chan struct{}, 1)}
	r := NewRng(Mix(spec.Seed, 0x570e))
	sw.unknown = v7(r)
	for i := range spec.Plans {
		sw.live = append(sw.live, materialise(i, &spec.Plans[i], r))
	}
	for i := range spec.Plans {
		// not over the cosmosdb fake: it keys documents by id alone and ignores the partition (its own TODO)
		if j := spec.Plans[i].Steal - 1; j >= 0 && j < len(sw.live) && j != i && spec.Backend != "cosmos" {
			if dst, src := childID(sw.live[i], spec.Plans[i].StealKind), childID(sw.live[j], spec.Plans[i].StealKind); dst != nil && src != nil {
				*dst = *src
			}
		}
	}
	v, err := sw.open()
	if err != nil {
		res.Harness = "open: " + err.Error()
		return
	}
	sw.vault = v
	var wg sync.WaitGroup
	for ci, ops := range spec.Clients {
		wg.Add(1)
		go func(ci int, ops []StoreOp) {
			defer wg.Done()
			defer func() {
				if r := recover(); r != nil {
					sw.v.addf("C13", "C13.r1", be(sw)+" vault operation panicked", nil, "%v", r)
				}
			}()
			for _, op := range ops {
				sw.doOp(ci, op)
			}
		}(ci, ops)
	}
	done := make(chan struct{})
	go func() { wg.Wait(); close(done) }()
	select {
	case <-done:
	case <-time.After(20 * opBudget):
		res.Harness = "store run exceeded its simulated budget"
	}
	if spec.Conc && res.Harness == "" {
		sw.mu.Lock()
		hist := append([]porcupine.Operation(nil), sw.hist...)
		sw.mu.Unlock()
		res.HistoryLen = len(hist)
		res.hist = hist // checked outside the bubble: the checker's timeout must be real time
	}
	w.Kill()
	w.Stop()
	synctest.Wait()
	res.SimNs = w.Now()
	res.Decisions = w.Decisions()
	res.Violations = sw.v.list
	sortViolations(res.Violations)
	cctx, cancel := stdctx.WithTimeout(stdctx.Background(), time.Minute)
	pool.Close(cctx)
	cancel()
	if sw.vault != nil {
		func() {
			defer func() { recover() }()
			sw.vault.Close(stdctx.Background())
		}()
	}
}
