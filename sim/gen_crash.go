package sim

// Workload generation and driving for the crash engine (E2): one index of a
// batch is one generated execution; the driver first runs it uninterrupted to
// learn W, its number of durable writes, and then re-runs it with a process
// death immediately before write w for enumerated or sampled w, optionally with
// a second death during recovery.

func countWrites(res *RunResult, gen int) int {
	n := 0
	for _, e := range res.Events {
		if e.Kind == EvWrite && e.Gen == gen && e.Op != "Create" && e.Op != "Delete" {
			n++
		}
	}
	return n
}

// GenCrashBase generates the uninterrupted execution of index idx.
func GenCrashBase(seed uint64, job *Job, idx int) *RunSpec {
	if job.Property == "C11" {
		return genC11Base(seed, idx)
	}
	r := NewRng(seed).Sub("gen-crash")
	enumerate := idx%2 == 0
	g := &genCtx{r: r, profile: job.Property}
	if enumerate {
		g.size = 0
	} else {
		g.size = Pick(r, []int{0, 0, 1, 1, 2})
	}
	g.pCheck = Pick(r, []float64{0, 0.3, 0.5, 0.8})
	g.consts = r.Bool(0.6)
	classes := []int{clsAllOK, clsOneSeqFail, clsManySeqFail, clsCheckFail, clsContFailAtK, clsFlaky, clsMix, clsBypassOK, clsTimeouts}
	g.class = classes[(idx/2)%len(classes)]
	if idx >= 8*len(classes) {
		g.class = Pick(r, classes)
	}
	spec := &RunSpec{Engine: "crash", Seed: seed, SchedSeed: Mix(seed, 0xc4a5), Profile: job.Property, Consts: g.consts}
	np := 1
	if !enumerate && r.Bool(0.25) {
		np = 2
	}
	for i := 0; i < np; i++ {
		p := g.plan()
		if enumerate && len(p.Blocks) > 2 {
			p.Blocks = p.Blocks[:2]
		}
		if g.class == clsContFailAtK && p.Cont == nil && p.Blocks[0].Cont == nil {
			p.Cont = g.checks(true)
		}
		if g.class == clsBypassOK && p.Bypass == nil && p.Blocks[0].Bypass == nil {
			p.Blocks[r.Intn(len(p.Blocks))].Bypass = g.checks(false)
		}
		g.applyScripts(&p)
		spec.Plans = append(spec.Plans, p)
	}
	if enumerate {
		spec.Policy = PolicySpec{Kind: "first"}
		if (idx/2)%3 == 1 {
			spec.Policy.WriteLatUs = 250
		}
	} else {
		spec.Policy = g.policy()
	}
	if spec.Consts {
		// a delayed plugin can miss its timeout: outcomes would no longer be a function of the action alone
		spec.Policy.DelayP = 0
	}
	spec.GraceMs = maxGrace(spec.Plans)
	for i := range spec.Plans {
		spec.Clients = append(spec.Clients, []ClientOp{{Op: "submit", Plan: i}, {Op: "start", Plan: i}, {Op: "wait", Plan: i}})
	}
	return spec
}

var restartChoices = []int64{0, 0, 1000, 60_000, 20 * 60_000}

func withCrashes(base *RunSpec, crashes ...CrashSpec) *RunSpec {
	c := cloneSpec(base)
	c.Decisions = nil
	c.Crashes = crashes
	return c
}

func fillExpect(base *RunSpec, res *RunResult) {
	base.Expect = nil
	if !base.Consts || res.Hang || res.Harness != "" {
		return
	}
	t := BuildTrace(res)
	for i := range base.Plans {
		f := t.FinalSnap(i)
		st, _ := f.Get(planPath(i))
		base.Expect = append(base.Expect, ExpectSpec{Status: st.Status, Reason: st.Reason})
	}
}

func driveCrash(job *Job, idx int, seed uint64, run func(*RunSpec) *RunResult, expired func() bool, wr *WorkerResult) {
	base := GenCrashBase(seed, job, idx)
	r := NewRng(seed).Sub("drive-crash")
	b := run(base)
	if b.Harness != "" || b.Overrun {
		return
	}
	W := countWrites(b, 0)
	if W == 0 {
		return
	}
	fillExpect(base, b)
	if job.Property == "C11" {
		driveC11(job, base, W, r, run, expired, wr)
		return
	}
	enumerate := idx%2 == 0
	thorough := job.Tier == "thorough"
	second := func(first CrashSpec, r1 *RunResult) {
		W2 := countWrites(r1, 1)
		if W2 == 0 {
			return
		}
		var ws []int
		if thorough && enumerate && W2 <= 80 {
			for w2 := 1; w2 <= W2; w2++ {
				ws = append(ws, w2)
			}
			wr.Extra["second_crash_enumerations"]++
		} else {
			for k := 0; k < 3; k++ {
				ws = append(ws, 1+r.Intn(W2))
			}
		}
		for _, w2 := range ws {
			if expired() {
				return
			}
			run(withCrashes(base, first, CrashSpec{AtWrite: w2, RestartMs: Pick(r, restartChoices)}))
			wr.Extra["double_crash_runs"]++
		}
	}
	if enumerate {
		wr.Extra["executions_enumerated"]++
		every := 7
		if thorough {
			every = 4
		}
		pick2 := r.Intn(every)
		complete := true
		for w := 1; w <= W; w++ {
			if expired() {
				complete = false
				break
			}
			first := CrashSpec{AtWrite: w, RestartMs: Pick(r, restartChoices)}
			r1 := run(withCrashes(base, first))
			wr.Extra["crash_points_enumerated"]++
			if r1.Harness == "" && !r1.Overrun && w%every == pick2 {
				second(first, r1)
			}
		}
		if complete {
			wr.Extra["executions_fully_enumerated"]++
		}
		return
	}
	n := 6
	if thorough {
		n = 12
	}
	for k := 0; k < n && !expired(); k++ {
		first := CrashSpec{AtWrite: 1 + r.Intn(W), RestartMs: Pick(r, restartChoices)}
		r1 := run(withCrashes(base, first))
		wr.Extra["crash_points_sampled"]++
		if r1.Harness == "" && !r1.Overrun && r.Bool(0.35) {
			second(first, r1)
		}
	}
}

// ---------------------------------------------------------------------------
// C11: what start-up touches.
// ---------------------------------------------------------------------------

func genC11Base(seed uint64, idx int) *RunSpec {
	r := NewRng(seed).Sub("gen-c11")
	g := &genCtx{r: r, profile: "C11", size: 0}
	g.pCheck = Pick(r, []float64{0, 0.3, 0.5})
	spec := &RunSpec{Engine: "crash", Seed: seed, SchedSeed: Mix(seed, 0xc11), Profile: "C11", Policy: PolicySpec{Kind: Pick(r, []string{"first", "random", "last"}), WriteLatUs: Pick(r, []int64{0, 0, 1, 250, 3000})}}
	np := 2 + r.Intn(4)
	for i := 0; i < np; i++ {
		kind := Pick(r, []string{"never", "quick", "quickfail", "long", "long", "long"})
		g.class = clsAllOK
		switch kind {
		case "quickfail":
			g.class = clsOneSeqFail
		}
		p := g.plan()
		if len(p.Blocks) > 2 {
			p.Blocks = p.Blocks[:2]
		}
		g.applyScripts(&p)
		if kind == "long" {
			// one long-running sequence action keeps the plan Running for a while
			a := &p.Blocks[r.Intn(len(p.Blocks))].Seqs[0].Actions[0]
			a.Timeout = 60
			a.Script = nil
			a.Default = Outcome{Kind: OK, LatMs: Pick(r, []int64{20137, 40137, 55137})}
		}
		spec.Plans = append(spec.Plans, p)
		ops := []ClientOp{{Op: "sleep", Ms: int64(r.Intn(4)) * 1500}, {Op: "submit", Plan: i}}
		if kind != "never" {
			ops = append(ops, ClientOp{Op: "start", Plan: i}, ClientOp{Op: "wait", Plan: i})
		}
		spec.Clients = append(spec.Clients, ops)
	}
	spec.GraceMs = maxGrace(spec.Plans)
	return spec
}

func driveC11(job *Job, base *RunSpec, W int, r *Rng, run func(*RunSpec) *RunResult, expired func() bool, wr *WorkerResult) {
	n := 8
	if job.Tier == "thorough" {
		n = 16
	}
	for k := 0; k < n && !expired(); k++ {
		c := cloneSpec(base)
		c.Decisions = nil
		maxMs := Pick(r, []int64{1000, 1000, 10_000, 0}) // 0 = the 30 min default
		inc := IncSpec{MaxLastUpdateMs: maxMs, NoRecovery: r.Bool(0.15)}
		c.Incs = []IncSpec{{}, inc}
		cr := CrashSpec{AtWrite: 1 + r.Intn(W)}
		eff := maxMs * 1e6
		if eff == 0 {
			eff = int64(30 * 60 * 1e9)
		}
		switch r.Intn(7) {
		case 0:
			cr.RestartMs = 0
		case 1:
			a := int64(-1)
			cr.AgeNs = &a
		case 2:
			a := int64(0)
			cr.AgeNs = &a
		case 3:
			a := int64(1)
			cr.AgeNs = &a
		case 4:
			a := eff
			cr.AgeNs = &a
		case 5:
			a := -eff / 2
			cr.AgeNs = &a
		default:
			cr.RestartMs = Pick(r, []int64{500, 999, 1000, 1001, 5000, 2 * 60 * 60_000})
		}
		c.Crashes = []CrashSpec{cr}
		run(c)
		wr.Extra["restarts"]++
	}
}
