package sim

import (
	"fmt"
	"strings"
	"time"
)

// ---------------------------------------------------------------------------
// World specification: everything one simulated run is a function of.
// A RunSpec is fully materialised (no PRNG needed to interpret it) except for
// the scheduler, which draws its choices from SchedSeed unless Decisions forces
// them. It is what a replay file contains.
// ---------------------------------------------------------------------------

// Outcome kinds of one plugin invocation.
const (
	OK        = "ok"
	Transient = "transient"
	Permanent = "permanent"
	WrongType = "wrongtype"
	Overrun   = "overrun"    // sleeps past the timeout, returns when ctx is cancelled
	OverrunIg = "overrun-ig" // sleeps past the timeout ignoring ctx, then returns ok
	Unencod   = "unencodable"
)

// Outcome is what one invocation of a sim plugin does.
type Outcome struct {
	Kind  string `json:"k"`
	LatMs int64  `json:"lat"` // simulated latency before returning
}

// ActionSpec describes one Action and the environment's behaviour for it.
type ActionSpec struct {
	Ptr     bool      `json:"ptr,omitempty"`     // pointer-typed request/response plugin flavour
	Timeout int       `json:"timeout,omitempty"` // seconds, 0 = engine default (30 s)
	Retries int       `json:"retries,omitempty"`
	Script  []Outcome `json:"script,omitempty"` // outcome of the k-th invocation (all runs, all incarnations)
	Default Outcome   `json:"default"`          // outcome after the script is exhausted
	BadReq  bool      `json:"badreq,omitempty"` // request cannot be serialised (E4)
}

type ChecksSpec struct {
	DelayMs int64        `json:"delay,omitempty"`
	Actions []ActionSpec `json:"actions"`
}

type SeqSpec struct {
	Actions []ActionSpec `json:"actions"`
}

type BlockSpec struct {
	Bypass      *ChecksSpec `json:"bypass,omitempty"`
	Pre         *ChecksSpec `json:"pre,omitempty"`
	Cont        *ChecksSpec `json:"cont,omitempty"`
	Post        *ChecksSpec `json:"post,omitempty"`
	Deferred    *ChecksSpec `json:"deferred,omitempty"`
	Seqs        []SeqSpec   `json:"seqs"`
	Concurrency int         `json:"conc"`
	Tolerated   int         `json:"tol"`
	EntranceMs  int64       `json:"entrance,omitempty"`
	ExitMs      int64       `json:"exit,omitempty"`
}

type PlanSpec struct {
	Bypass   *ChecksSpec `json:"bypass,omitempty"`
	Pre      *ChecksSpec `json:"pre,omitempty"`
	Cont     *ChecksSpec `json:"cont,omitempty"`
	Post     *ChecksSpec `json:"post,omitempty"`
	Deferred *ChecksSpec `json:"deferred,omitempty"`
	Blocks   []BlockSpec `json:"blocks"`
	Group    int         `json:"group,omitempty"`
}

// ClientOp is one step of a simulated API client.
type ClientOp struct {
	Op   string `json:"op"` // submit start wait plan status sleep startUnknown waitUnknown planUnknown
	Plan int    `json:"plan,omitempty"`
	Ms   int64  `json:"ms,omitempty"` // sleep duration / status interval
}

// PolicySpec selects how the scheduler picks among parked operations.
type PolicySpec struct {
	Kind   string  `json:"kind"`             // random | first | last | starve | prio
	P      float64 `json:"p,omitempty"`      // probability of a random pick for first/last
	Starve string  `json:"starve,omitempty"` // label substring starved by "starve"
	DelayP float64 `json:"delayp,omitempty"` // probability that a released seam op is delayed first
	// Changes: number of priority change points of the "prio" policy (see World.prioPick).
	Changes int `json:"changes,omitempty"`
	// ReplyP: probability that the reply of a storage Read is delivered late (the
	// data is read at one instant, the caller gets it 1 s .. 1000 s later).
	ReplyP float64 `json:"replyp,omitempty"`
	// WriteLatUs: simulated duration of every durable write (the engine's clock has
	// moved on when the call returns); 0 keeps consecutive engine steps at one instant.
	WriteLatUs int64 `json:"writeLatUs,omitempty"`
	// Yields: the scheduling points inserted in front of the engine's accesses to
	// shared in-memory state are active (in recovering incarnations only where a context tells the caller's process, see World.YieldCtx).
	Yields bool `json:"yields,omitempty"`
	// YieldGen0Only: scheduling points take part in the first incarnation only (the
	// behaviour before they were extended to recovering incarnations; set in replay files
	// recorded before, never generated).
	YieldGen0Only bool `json:"yield_gen0_only,omitempty"`
	// YieldAllGens: experimental, never generated (see World.Yield).
	YieldAllGens bool `json:"yield_all_gens,omitempty"`
}

// CrashSpec is one process death.
type CrashSpec struct {
	AtWrite   int   `json:"at"`      // crash immediately before applying the n-th durable write of the incarnation (1-based)
	RestartMs int64 `json:"restart"` // simulated time between death and restart
	// AgeNs, when set, overrides RestartMs: the restart happens at the instant at
	// which the age (now - newest Start/End timestamp) of the first plan that is
	// durably Running equals the next incarnation's MaxLastUpdate + *AgeNs.
	AgeNs *int64 `json:"ageNs,omitempty"`
}

// ExpectSpec is the outcome of the uninterrupted execution of a plan (filled in
// by the crash engine's driver from the baseline run; used by C10.r4).
type ExpectSpec struct {
	Status int `json:"status"`
	Reason int `json:"reason"`
}

// IncSpec configures one incarnation (one coercion.New).
type IncSpec struct {
	MaxLastUpdateMs int64 `json:"maxLastUpdate,omitempty"` // 0 = default
	MaxSubmitMs     int64 `json:"maxSubmit,omitempty"`     // 0 = default
	NoRecovery      bool  `json:"noRecovery,omitempty"`
}

type RunSpec struct {
	Engine    string       `json:"engine"`
	Seed      uint64       `json:"seed"`      // the run seed everything below was generated from (informational)
	SchedSeed uint64       `json:"schedSeed"` // seeds scheduler choices
	Profile   string       `json:"profile,omitempty"`
	Plans     []PlanSpec   `json:"plans"`
	Clients   [][]ClientOp `json:"clients"`
	Policy    PolicySpec   `json:"policy"`
	Crashes   []CrashSpec  `json:"crashes,omitempty"`
	Incs      []IncSpec    `json:"incs,omitempty"` // per incarnation; missing = defaults
	GraceMs   int64        `json:"grace,omitempty"`
	// Decisions, when non-nil, forces the scheduler's choices (replay).
	Decisions []int `json:"decisions,omitempty"`
	// Expect, per plan: outcome of the uninterrupted run (crash engine, constant scripts only).
	Expect []ExpectSpec `json:"expect,omitempty"`
	// Consts: every plugin outcome is a function of the action alone.
	Consts bool `json:"consts,omitempty"`
	// FailWrite makes the n-th durable write return an error (E5, child process only).
	FailWrite int `json:"failWrite,omitempty"`
}

func (r *RunSpec) Inc(i int) IncSpec {
	if i < len(r.Incs) {
		return r.Incs[i]
	}
	return IncSpec{}
}

// ---------------------------------------------------------------------------
// Layout: the logical objects of a plan, named by path.
// ---------------------------------------------------------------------------

type ObjKind int

const (
	KPlan ObjKind = iota
	KChecks
	KBlock
	KSeq
	KAction
)

func (k ObjKind) String() string {
	return [...]string{"plan", "checks", "block", "seq", "action"}[k]
}

// Groups in engine execution order.
var groupNames = [5]string{"bypass", "pre", "cont", "post", "deferred"}

// Obj is one logical object of a plan.
type Obj struct {
	Path   string
	Kind   ObjKind
	Plan   int
	Block  int    // -1 when plan-level
	Group  string // for checks and check actions: bypass/pre/cont/post/deferred; "" otherwise
	Seq    int    // -1 unless seq / seq action
	Idx    int    // action index within its parent
	Parent string
	Spec   *ActionSpec // for actions
	Checks *ChecksSpec // for checks
}

func (o *Obj) IsSeqAction() bool   { return o.Kind == KAction && o.Seq >= 0 }
func (o *Obj) IsCheckAction() bool { return o.Kind == KAction && o.Group != "" }

// Scope returns the path of the plan or block the object belongs to.
func (o *Obj) Scope() string {
	if o.Block >= 0 {
		return fmt.Sprintf("p%d/b%d", o.Plan, o.Block)
	}
	return fmt.Sprintf("p%d", o.Plan)
}

// Layout lists all objects of a plan in walk (execution) order.
type Layout struct {
	Plan   int
	Spec   *PlanSpec
	Objs   []*Obj
	ByPath map[string]*Obj
}

func planChecks(p *PlanSpec) [5]*ChecksSpec {
	return [5]*ChecksSpec{p.Bypass, p.Pre, p.Cont, p.Post, p.Deferred}
}
func blockChecks(b *BlockSpec) [5]*ChecksSpec {
	return [5]*ChecksSpec{b.Bypass, b.Pre, b.Cont, b.Post, b.Deferred}
}

func NewLayout(idx int, p *PlanSpec) *Layout {
	l := &Layout{Plan: idx, Spec: p, ByPath: map[string]*Obj{}}
	add := func(o *Obj) {
		l.Objs = append(l.Objs, o)
		l.ByPath[o.Path] = o
	}
	pp := fmt.Sprintf("p%d", idx)
	add(&Obj{Path: pp, Kind: KPlan, Plan: idx, Block: -1, Seq: -1})
	addChecks := func(parent string, block int, cs [5]*ChecksSpec) {
		for gi, c := range cs {
			if c == nil {
				continue
			}
			cp := parent + "/" + groupNames[gi]
			add(&Obj{Path: cp, Kind: KChecks, Plan: idx, Block: block, Group: groupNames[gi], Seq: -1, Parent: parent, Checks: c})
			for ai := range c.Actions {
				add(&Obj{Path: fmt.Sprintf("%s/a%d", cp, ai), Kind: KAction, Plan: idx, Block: block, Group: groupNames[gi], Seq: -1, Idx: ai, Parent: cp, Spec: &c.Actions[ai]})
			}
		}
	}
	addChecks(pp, -1, planChecks(p))
	for bi := range p.Blocks {
		b := &p.Blocks[bi]
		bp := fmt.Sprintf("%s/b%d", pp, bi)
		add(&Obj{Path: bp, Kind: KBlock, Plan: idx, Block: bi, Seq: -1, Parent: pp})
		addChecks(bp, bi, blockChecks(b))
		for si := range b.Seqs {
			sp := fmt.Sprintf("%s/s%d", bp, si)
			add(&Obj{Path: sp, Kind: KSeq, Plan: idx, Block: bi, Seq: si, Parent: bp})
			for ai := range b.Seqs[si].Actions {
				add(&Obj{Path: fmt.Sprintf("%s/a%d", sp, ai), Kind: KAction, Plan: idx, Block: bi, Seq: si, Idx: ai, Parent: sp, Spec: &b.Seqs[si].Actions[ai]})
			}
		}
	}
	return l
}

// PlanOfPath returns the plan index of a path ("p3/..." -> 3), -1 if none.
func PlanOfPath(path string) int {
	if !strings.HasPrefix(path, "p") {
		return -1
	}
	n := 0
	i := 1
	for ; i < len(path) && path[i] >= '0' && path[i] <= '9'; i++ {
		n = n*10 + int(path[i]-'0')
	}
	if i == 1 {
		return -1
	}
	return n
}

// EffTimeout returns the action timeout the engine will use.
func (a *ActionSpec) EffTimeout() time.Duration {
	if a.Timeout == 0 {
		return 30 * time.Second
	}
	return time.Duration(a.Timeout) * time.Second
}

// OutcomeAt returns the scripted outcome of invocation k (0-based).
func (a *ActionSpec) OutcomeAt(k int) Outcome {
	if k < len(a.Script) {
		return a.Script[k]
	}
	return a.Default
}

func ms(d int64) time.Duration { return time.Duration(d) * time.Millisecond }
