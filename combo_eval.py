#!/usr/bin/env python3
"""Sensitivity under benign drift: every seeded change is combined with property-preserving changes
(benign/) that apply alongside it in a scratch worktree, and the seeded property's quick check must
still report a violation. usage: combo_eval.py [pairs_per_seed] [wall_ms]"""
import os, sys, json, glob, random, subprocess
k = int(sys.argv[1]) if len(sys.argv) > 1 else 2
wall = sys.argv[2] if len(sys.argv) > 2 else "15000"
wt = "/tmp/wt_combo"
def sh(cmd, **kw): return subprocess.run(cmd, shell=True, capture_output=True, text=True, **kw)
sh(f"git -C /repo worktree remove --force {wt}")
assert sh(f"git -C /repo worktree add --detach {wt} HEAD").returncode == 0
random.seed(12345)
benign = sorted(glob.glob("/verif/benign/B*/change*.diff"))
env = dict(os.environ, VERIF_REPO=wt, VERIF_BUILD_TAG="-combo", VERIF_NO_EVIDENCE="1", VERIF_BRIEF="1",
           VERIF_REPLAY_DIR="/tmp/rp_combo", VERIF_WALL_MS=wall)
caught = missed = 0
try:
    for meta in sorted(glob.glob("/verif/seeded/*/meta.json")):
        m = json.load(open(meta)); sid = m["id"]; prop = m["breaks_property"]
        patch = os.path.dirname(meta) + "/patch.diff"
        cands = benign[:]; random.shuffle(cands); done = 0
        for b in cands:
            if done >= k: break
            sh(f"git -C {wt} checkout -- . ")
            if sh(f"git -C {wt} apply {b}").returncode != 0: continue
            if sh(f"git -C {wt} apply {patch}").returncode != 0: continue
            r = subprocess.run(f"cd /verif && bin/verif check {prop} --tier quick", shell=True, capture_output=True, text=True, env=env)
            n = r.stdout.count("\nVIOLATION") + (1 if r.stdout.startswith("VIOLATION") else 0)
            tag = "CAUGHT" if r.returncode == 1 and n > 0 else f"MISSED(exit {r.returncode})"
            if tag == "CAUGHT": caught += 1
            else: missed += 1
            bl = "/".join(b.split("/")[-2:])
            print(f"COMBO {sid:58s} + {bl:18s} {prop} {tag} ({n} classes)", flush=True)
            done += 1
finally:
    sh(f"git -C /repo worktree remove --force {wt}"); sh("rm -rf /tmp/rp_combo /verif/bin/sim-combo.test /verif/build/overlay-combo")
print(f"combo: {caught} caught, {missed} missed")
sys.exit(1 if missed else 0)
