#!/bin/sh
# usage: seed_confirm.sh <worktree> <demo go test args...>
# Confirms a seeded change in its scratch worktree: demo fails with the patch, passes without it,
# and the existing suite passes with the patch. Prints a summary.
wt=$1; shift
cd $wt || exit 2
git checkout -q -- . 2>/dev/null
git apply SEEDED/patch.diff || { echo "PATCH DOES NOT APPLY"; exit 2; }
echo "== demo WITH patch"; go test -mod=mod -vet=off -count=1 "$@" 2>&1 | tail -4
echo "== suite WITH patch (demo excluded)"; go test -mod=mod -vet=off -count=1 -skip 'Seeded|SEEDED|seeded' ./... 2>&1 | grep -v "no test files" | grep -v "^ok" | tail -5; echo "suite done"
git apply -R SEEDED/patch.diff
echo "== demo WITHOUT patch"; go test -mod=mod -vet=off -count=1 "$@" 2>&1 | tail -3
git apply SEEDED/patch.diff
