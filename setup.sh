#!/bin/sh
# Builds the orchestrator from files on disk only (offline).
set -e
cd "$(dirname "$0")"
export GOFLAGS=-mod=mod GOPROXY=off GOSUMDB=off GOTOOLCHAIN=local
mkdir -p bin build evidence replays
(cd orch && go1.26.8 build -o ../bin/verif ./cmd/verif)
echo "setup ok"
