#!/usr/bin/env python3
"""usage: seed_keep.py <worktree> <id> <property> <needs> <caught_by> <demo_cmd>
Archives a confirmed seeded change under /verif/seeded/<id>/."""
import sys, os, shutil, json, glob
wt, sid, prop, needs, caught, demo_cmd = sys.argv[1:7]
d = f"/verif/seeded/{sid}"
os.makedirs(d, exist_ok=True)
shutil.copy(f"{wt}/SEEDED/patch.diff", f"{d}/patch.diff")
for f in glob.glob(f"{wt}/SEEDED/*"):
    b = os.path.basename(f)
    if b == "patch.diff" or b.endswith(".log") or "output" in b or "fullsuite" in b:
        continue
    dst = b + ".txt" if b.endswith(".go") else b   # keep go files out of any build
    if os.path.isfile(f):
        shutil.copy(f, f"{d}/{dst}")
meta = {
    "id": sid, "breaks_property": prop, "needs_to_manifest": needs,
    "demo": demo_cmd,
    "confirmed": "in the author's scratch worktree: demo fails with patch.diff applied and passes without it; existing suite (go test -mod=mod -vet=off -count=1 ./...) passes with the patch (seed_confirm.sh)",
    "ran_against_checks": "git -C /repo apply patch.diff; bin/verif check <prop> --tier quick; git -C /repo checkout -- . (seed_eval.sh)",
    "caught_by": caught,
}
json.dump(meta, open(f"{d}/meta.json", "w"), indent=1)
print("kept", d, os.listdir(d))
