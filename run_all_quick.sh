#!/bin/sh
# Runs every registered quick check once (development helper).
cd "$(dirname "$0")"
for p in C01 C02 C03 C04 C05 C06 C07 C08 C09 C10 C11 C12 C13 C14 C15; do
  VERIF_BRIEF=1 bin/verif check $p --tier quick 2>&1 | cut -c1-300 | tail -12
  echo "exit($p)=$?"
done
