#!/bin/sh
# Applies every property-preserving change under benign/ to /repo in turn and runs all quick checks on it.
# Any "class:" line in the output is an alarm on code where the properties hold (a false alarm to investigate).
cd "$(dirname "$0")"
for d in benign/B*/change*.diff; do
  echo "=== $d"
  ./benign_eval.sh "$PWD/$d" "$@" | grep -v " 0 violation class"
done
