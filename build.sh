#!/bin/sh
# Rebuilds the detsel overlay and the simulator test binary from /repo's current tree.
set -e
cd "$(dirname "$0")"
export GOFLAGS=-mod=mod GOPROXY=off GOSUMDB=off GOTOOLCHAIN=local
[ -x bin/verif ] || ./setup.sh >/dev/null
bin/verif detsel /repo build/overlay >/dev/null
cp /repo/go.sum sim/go.sum
(cd sim && go1.26.8 test -c -vet=off -tags verif -overlay ../build/overlay/overlay.json -o ../bin/sim.test .)
