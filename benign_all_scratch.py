#!/usr/bin/env python3
"""Like benign_all.sh but in a scratch worktree (VERIF_REPO), so /repo stays free: applies every
property-preserving change under benign/ and runs all 15 quick checks; prints every alarm."""
import os, sys, glob, subprocess
wall = sys.argv[1] if len(sys.argv) > 1 else "12000"
wt = "/tmp/wt_benign"
def sh(cmd): return subprocess.run(cmd, shell=True, capture_output=True, text=True)
sh(f"git -C /repo worktree remove --force {wt}")
assert sh(f"git -C /repo worktree add --detach {wt} HEAD").returncode == 0
env = dict(os.environ, VERIF_REPO=wt, VERIF_BUILD_TAG="-benign", VERIF_NO_EVIDENCE="1", VERIF_BRIEF="1",
           VERIF_REPLAY_DIR="/tmp/rp_benign2", VERIF_WALL_MS=wall)
alarms = 0
try:
    only = os.environ.get("BENIGN_ONLY", "").split()  # e.g. "B4 B9": restrict to these directories
    props = os.environ.get("BENIGN_PROPS", "C01 C02 C03 C04 C05 C06 C07 C08 C09 C10 C11 C12 C13 C14 C15").split()
    for d in sorted(glob.glob("/verif/benign/B*/change*.diff")):
        if only and d.split("/")[-2] not in only:
            continue
        sh(f"git -C {wt} checkout -- .")
        if sh(f"git -C {wt} apply {d}").returncode != 0:
            print("DOES-NOT-APPLY", d, flush=True); continue
        bad = []
        for p in props:
            r = subprocess.run(f"cd /verif && bin/verif check {p} --tier quick", shell=True, capture_output=True, text=True, env=env)
            if r.returncode != 0:
                lines = [l for l in r.stdout.splitlines() if "class:" in l or "TROUBLE" in l or "NONDET" in l][:4]
                bad.append((p, r.returncode, lines))
        alarms += len(bad)
        print("BENIGN", "/".join(d.split("/")[-2:]), "SILENT" if not bad else f"ALARMS {bad}", flush=True)
finally:
    sh(f"git -C /repo worktree remove --force {wt}"); sh("rm -rf /tmp/rp_benign2 /verif/bin/sim-benign.test /verif/build/overlay-benign")
print("benign: alarms", alarms)
